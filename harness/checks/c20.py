"""C20 -- parse/serialise and compress/decompress pairs are mutual inverses."""
import io
import json
import random
import struct

from ..core import ModelRunner, hx, Ctx, prove, finish
from .. import pyenv
from ..builders import lzss

TRUSTED = [
    'Coq 8.16.1 kernel (coqc); no axioms; vm_compute used for the complete sweeps of finite domains (65 536 words, all icon pixels), '
    'the bound being part of each statement',
    'translator py2gallina.py: TitleVersion / ContentTypeFlags conversions, rgb565_to_rgb888_tuple, the pixel_offset expression, '
    'SMDHFlags / SMDHRegionLockout bit tables, DIFI from_bytes / to_bytes regenerated each run; the theorems are about the regenerated terms',
    'round trips of the types without a Coq model (AppTitle, SMDH image, config save, seed DB, NCSD header, IVFC/DPFS descriptors, LZSS) '
    'are decided on the implementation by direct oracle on generated values (sampled)',
    'reference backward-LZSS compressor harness/builders/lzss.py (cross-checked by its own token expander)',
]
ASSUME = ['str <-> UTF-16 is CPython\'s codec; Pillow image objects are not examined (pixel arrays are)']

REGIONS = ('Japanese', 'English', 'French', 'German', 'Italian', 'Spanish', 'Simplified Chinese', 'Korean', 'Dutch',
           'Portuguese', 'Russian', 'Traditional Chinese')


def rand_str(rng, max_units):
    """string of at most max_units UTF-16 code units, no NUL at either end"""
    kind = rng.randrange(5)
    target = rng.choice([0, 1, max_units // 2, max_units - 1, max_units]) if kind else rng.randrange(0, max_units + 1)
    out, units = [], 0
    while units < target:
        # (U+FEFF and U+FFFE are characters like any other in a field that has no byte-order mark)
        c = rng.choice(['a', 'Z', ' ', 'é', 'あ', '中', '\U0001F600', '\U00010348', '\0', '￿', '\ufeff', '\ufffe'])
        u = 2 if ord(c) > 0xFFFF else 1
        if units + u > target:
            c, u = 'x', 1
        out.append(c)
        units += u
    s = ''.join(out).strip('\0')
    return s


def morton(x, y):
    m = 0
    for i in range(3):
        m |= ((x >> i) & 1) << (2 * i)
        m |= ((y >> i) & 1) << (2 * i + 1)
    return m


def tile(pixels, w, h):
    """pixels[y][x] 16-bit -> tiled RGB565 bytes"""
    out = bytearray(w * h * 2)
    for y in range(h):
        for x in range(w):
            idx = ((y // 8) * (w // 8) + (x // 8)) * 64 + morton(x % 8, y % 8)
            out[2 * idx:2 * idx + 2] = pixels[y][x].to_bytes(2, 'little')
    return bytes(out)


def expand565(v):
    return (((v >> 11) & 0x1F) * 255 // 31, ((v >> 5) & 0x3F) * 255 // 63, (v & 0x1F) * 255 // 31)


def build_smdh(titles, flags, lockout, small, large, rng):
    b = bytearray(pyenv.rbytes(rng, 0x36C0))
    b[0:4] = b'SMDH'
    for i in range(16):
        if i < 12 and titles[i] is not None:
            s, l, p = titles[i]
            b[8 + i * 0x200:8 + (i + 1) * 0x200] = (s.encode('utf-16le').ljust(0x80, b'\0') + l.encode('utf-16le').ljust(0x100, b'\0')
                                                     + p.encode('utf-16le').ljust(0x80, b'\0'))
        else:
            b[8 + i * 0x200:8 + (i + 1) * 0x200] = bytes(0x200)
    b[0x2018:0x201C] = lockout.to_bytes(4, 'little')
    b[0x2028:0x202C] = flags.to_bytes(4, 'little')
    b[0x2040:0x24C0] = tile(small, 24, 24)
    b[0x24C0:0x36C0] = tile(large, 48, 48)
    return bytes(b)


def check(ctx, sig, case, ok, expected, observed, what):
    if not ok:
        ctx.diff('oracle', sig, case, expected, observed, what)


def t_apptitle(ctx, rng):
    from pyctr.type.smdh import AppTitle
    s, l, p = rand_str(rng, 0x40), rand_str(rng, 0x80), rand_str(rng, 0x40)
    case = dict(t='apptitle', s=s, l=l, p=p)
    ctx.case(case)
    t = AppTitle(s, l, p)
    raw = bytes(t)
    back = AppTitle.from_bytes(raw)
    check(ctx, 'apptitle-roundtrip', case, back == t and len(raw) == 0x200, repr(t), repr(back), 'AppTitle parse(serialise(v)) != v')
    # the Coq model of from_bytes / __bytes__ (Model/AppTitle.v, round trip proved) on the same bytes, and on damaged ones
    for variant in (raw, raw[:rng.randrange(0, 0x200)] if rng.random() < 0.3 else raw[:0x7E] + b'\x00\xd8' + raw[0x80:] if rng.random() < 0.5 else raw[:0x40] + b'\x00\xdc\x41\x00' + raw[0x44:]):
        out = model('codec apptitle ' + hx(variant))
        if out is None:
            break
        try:
            tt = AppTitle.from_bytes(variant)
            cps = lambda x: ','.join('%x' % ord(ch) for ch in x) or '-'
            impl = ' '.join([cps(tt.short_desc), cps(tt.long_desc), cps(tt.publisher), hx(bytes(tt))])
        except Exception as ex:
            impl = 'e:' + pyenv.errname(ex)
        if out != impl:
            a, b = out.split(' '), impl.split(' ')
            k = next((i for i, (x, y) in enumerate(zip(a, b)) if x != y), min(len(a), len(b)) - 1)
            ctx.diff('corr', 'apptitle-model', dict(case, raw=variant.hex()[:80]), a[k][:100], b[k][:100], 'AppTitle: Coq model and implementation differ')
        ctx.stat('apptitle_model')
    check(ctx, 'apptitle-canonical', case, bytes(back) == raw, raw.hex()[:80], bytes(back).hex()[:80], 'AppTitle serialise(parse(b)) != b')


def t_smdh(ctx, rng):
    from pyctr.type.smdh import SMDH
    titles = [(rand_str(rng, 0x40), rand_str(rng, 0x80), rand_str(rng, 0x40)) if rng.random() < 0.8 else None for _ in range(12)]
    flags = rng.getrandbits(32) if rng.random() < 0.7 else rng.choice([0, 1, 0x400, 0x1000, 0xFFFFFFFF, 0x200, 0x800])
    lockout = rng.choice([0x7FFFFFFF, 0, 1, 0x7F, 0xFFFFFFFF, rng.getrandbits(32), rng.getrandbits(7)])
    small = [[rng.getrandbits(16) for _ in range(24)] for _ in range(24)]
    large = [[rng.getrandbits(16) for _ in range(48)] for _ in range(48)]
    seed = rng.randrange(1 << 30)
    case = dict(t='smdh', flags=flags, lockout=lockout, seed=seed, titles=[None if t is None else list(t) for t in titles])
    ctx.case(case)
    img = build_smdh(titles, flags, lockout, small, large, random.Random(seed))
    s = SMDH.load(io.BytesIO(img))
    for i, r in enumerate(REGIONS):
        want = titles[i] if titles[i] is not None else ('', '', '')
        got = s.names[r]
        check(ctx, 'smdh-title', case, tuple(got) == tuple(want), want, tuple(got), f'SMDH title {r} differs')
    bits = [0x1, 0x2, 0x4, 0x8, 0x10, 0x20, 0x40, 0x80, 0x100, 0x400, 0x1000]
    want = tuple(bool(flags & b) for b in bits)
    check(ctx, 'smdh-flags', case, tuple(s.flags) == want, want, tuple(s.flags), 'SMDH flags differ')
    wantl = tuple(bool(lockout & (1 << i)) for i in range(7)) + (lockout == 0x7FFFFFFF,)
    check(ctx, 'smdh-lockout', case, tuple(s.region_lockout) == wantl, wantl, tuple(s.region_lockout), 'SMDH region lockout differs')
    ws = [[expand565(v) for v in row] for row in small]
    wl = [[expand565(v) for v in row] for row in large]
    check(ctx, 'smdh-icon-small', case, [list(map(tuple, r)) for r in s.icon_small_array] == ws, 'pixels', 'differ', 'small icon decode is not the inverse of Morton tiling + RGB565 expansion')
    check(ctx, 'smdh-icon-large', case, [list(map(tuple, r)) for r in s.icon_large_array] == wl, 'pixels', 'differ', 'large icon decode is not the inverse of Morton tiling + RGB565 expansion')


def t_pixels_exhaustive(ctx):
    """every pixel position of both icon sizes, one hot pixel each; and all 65 536 colours"""
    from pyctr.type.smdh import load_tiled_rgb565_to_array, rgb565_to_rgb888_tuple
    for w in (24, 48):
        for y in range(w):
            for x in range(w):
                px = [[0] * w for _ in range(w)]
                px[y][x] = 0xFFFF
                arr = load_tiled_rgb565_to_array(tile(px, w, w), w, w)
                ctx.evaluations += 1
                hot = [(yy, xx) for yy in range(w) for xx in range(w) if tuple(arr[yy][xx]) != (0, 0, 0)]
                check(ctx, 'pixel-position', dict(t='pixel', w=w, x=x, y=y), hot == [(y, x)], [(y, x)], hot[:4], 'tiled pixel decoded at the wrong position')
    for v in range(65536):
        ctx.evaluations += 1
        got = tuple(rgb565_to_rgb888_tuple(v.to_bytes(2, 'little')))
        if got != expand565(v):
            check(ctx, 'rgb565', dict(t='rgb', v=v), False, expand565(v), got, 'RGB565 expansion differs')
    ctx.stat('exhaustive_pixels_and_colours', 24 * 24 + 48 * 48 + 65536)


def t_words_exhaustive(ctx):
    import operator as _operator
    import struct as _struct
    from pyctr.type.tmd import TitleVersion, ContentTypeFlags
    for w in range(65536):
        ctx.evaluations += 1
        v = TitleVersion.from_int(w)
        if int(v) != w or not (0 <= v.major < 64 and 0 <= v.minor < 64 and 0 <= v.micro < 16):
            check(ctx, 'titleversion', dict(t='tv', w=w), False, w, int(v), 'TitleVersion word round trip')
        # "the word of a version" has more than one spelling: int(), the index protocol (what struct.pack and hex() use)
        try:
            spelled = (_operator.index(v), int.from_bytes(_struct.pack('>H', v), 'big'))
        except Exception as ex:
            spelled = (pyenv.errname(ex),)
        if any(x != w for x in spelled):
            check(ctx, 'titleversion', dict(t='tv', w=w, via='index'), False, w, spelled, 'TitleVersion word round trip through operator.index / struct.pack')
        if TitleVersion.from_int(int(v)) != v:
            check(ctx, 'titleversion', dict(t='tv', w=w), False, tuple(v), tuple(TitleVersion.from_int(int(v))), 'TitleVersion triple round trip')
        f = ContentTypeFlags.from_int(w)
        if int(f) != (w & 0xC007) or ContentTypeFlags.from_int(int(f)) != f:
            check(ctx, 'contenttypeflags', dict(t='ctf', w=w), False, w & 0xC007, int(f), 'ContentTypeFlags word round trip')
    ctx.stat('exhaustive_words', 65536)


def t_config(ctx, rng):
    from pyctr.type.config.save import ConfigSaveReader, KNOWN_BLOCKS
    strict = rng.random() < 0.6
    ids = rng.sample(sorted(KNOWN_BLOCKS), rng.randrange(0, 30))
    blocks = []
    for bid in ids:
        if strict:
            blocks.append((bid, KNOWN_BLOCKS[bid]['flags'], pyenv.rbytes(rng, KNOWN_BLOCKS[bid]['size'])))
        else:
            blocks.append((bid ^ rng.getrandbits(3), rng.choice([0x8, 0xC, 0xA, 0xE]), pyenv.rbytes(rng, rng.choice([0, 1, 3, 4, 5, 8, 100]))))
    blocks = list({b[0]: b for b in blocks}.values())
    case = dict(t='config', strict=strict, blocks=[[b[0], b[1], b[2].hex()] for b in blocks])
    ctx.case(case)
    c = ConfigSaveReader()
    try:
        for bid, fl, data in blocks:
            c.set_block(bid, data, fl, strict=strict)
        raw = c.to_bytes()
    except Exception as ex:
        from pyctr.type.config.save import OutOfSpaceConfigSaveError
        if not isinstance(ex, OutOfSpaceConfigSaveError):
            check(ctx, 'config-build-raises', case, False, 'bytes', pyenv.errname(ex), 'building a config save raised')
        return
    if not strict:
        return   # load() re-applies the strict table; only strict images are in the property
    try:
        back = ConfigSaveReader.load(io.BytesIO(raw))
    except Exception as ex:
        check(ctx, 'config-load-raises', case, False, 'a reader', pyenv.errname(ex), 'load(to_bytes(v)) raised')
        return
    got = [(k, v.flags, v.data) for k, v in back.blocks.items()]
    # the Coq model of load / to_bytes (Model/CfgSave.v, round trip proved) on the same image, with the module's own strict table
    table = ','.join('%x:%x:%x' % (k, v['flags'], v['size']) for k, v in sorted(KNOWN_BLOCKS.items())) or '-'
    out = model('codec cfgsave %s %s' % (table, hx(raw)))
    if out is not None:
        want = ','.join('%x:%x:%s' % (k, f, d.hex()) for k, f, d in got) + ' ' + hx(back.to_bytes())
        if out != want:
            a, b = out.split(' '), want.split(' ')
            k = 0 if a[0] != b[0] else 1
            ctx.diff('corr', 'config-model', case, a[k][:120], b[k][:120], 'config save: Coq model and implementation differ (' + ('loaded blocks' if k == 0 else 're-serialised image') + ')')
        ctx.stat('config_model')
    check(ctx, 'config-roundtrip', case, got == blocks, str(blocks)[:200], str(got)[:200], 'config save load(to_bytes(v)) != v')
    check(ctx, 'config-canonical', case, back.to_bytes() == raw and len(raw) == 0x8000, 'same image', 'different', 'config save to_bytes(load(b)) != b')


def t_config_blocks(ctx, rng):
    """the typed accessors over a config save: what the setter stores, the getter returns (through bytes as well)"""
    from pyctr.type.config.save import ConfigSaveReader
    from pyctr.type.config.blocks import ConfigSaveBlockParser
    alphabet = ['a', 'Z', '0', ' ', '\u00e9', '\u3042', '\uffff', '\U0001F600', '\U00010400']
    units = rng.choice([0, 1, 5, 9, 10, 13, 14])          # the block holds 14 UTF-16 units; a full one has no terminator
    name = ''
    while True:
        ch = rng.choice(alphabet)
        if len((name + ch).encode('utf-16le')) // 2 > units:
            break
        name += ch
    if rng.random() < 0.3 and units == 14:
        name = name + 'x' * (14 - len(name.encode('utf-16le')) // 2)
    offset = rng.choice([0, 1, (1 << 64) - 1, rng.getrandbits(64)])
    case = dict(t='config-blocks', name=name, offset=offset)
    ctx.case(case)
    try:
        p = ConfigSaveBlockParser(ConfigSaveReader())
        p.username = name
        p.user_time_offset = offset
        model_no = rng.randrange(6)
        if rng.random() < 0.5:
            p.system_model = model_no          # a block the accessor has to create on a fresh save
        else:
            model_no = None
        got1 = (p.username, p.user_time_offset)
        p2 = ConfigSaveBlockParser.load(io.BytesIO(p.save.to_bytes()))
        got2 = (p2.username, p2.user_time_offset)
        if model_no is not None and (int(p.system_model), int(p2.system_model)) != (model_no, model_no):
            check(ctx, 'config-blocks-roundtrip', dict(case, model=model_no), False, model_no, (int(p.system_model), int(p2.system_model)), 'system model read back differs')
    except Exception as ex:
        check(ctx, 'config-blocks-raises', case, False, 'values', pyenv.errname(ex), 'typed config accessors raised')
        return
    check(ctx, 'config-blocks-roundtrip', case, got1 == (name, offset) and got2 == (name, offset), repr((name, offset))[:80], repr(got1 if got1 != (name, offset) else got2)[:80],
          'config save accessor: the value read back is not the value set')


def t_seeddb(ctx, rng):
    from pyctr.crypto import seeddb
    n = rng.randrange(0, 12)
    db = {rng.getrandbits(64) if rng.random() < 0.8 else rng.choice([0, 1, (1 << 64) - 1]): pyenv.rbytes(rng, 16) for _ in range(n)}
    case = dict(t='seeddb', db={hex(k): v.hex() for k, v in db.items()})
    ctx.case(case)
    saved = dict(seeddb._seeds)
    try:
        seeddb._seeds.clear()
        for k, v in db.items():
            seeddb.add_seed(k, v)
        out = io.BytesIO()
        seeddb.save_seeddb(out)
        raw = out.getvalue()
        seeddb._seeds.clear()
        seeddb.load_seeddb(io.BytesIO(raw))
        back = dict(seeddb._seeds)
        out = model('codec seeddb ' + hx(raw))
        if out is not None:
            impl = ','.join('%x:%s' % (k, v.hex()) for k, v in back.items()) + ' ' + hx(raw)
            if out != impl:
                ctx.diff('corr', 'seeddb-model', case, out[:120], impl[:120], 'seed DB: Coq model and implementation differ')
            # a truncated image / a count beyond the file: both stop at the last complete entry
            cut = raw[:rng.randrange(0, len(raw) + 1)] if rng.random() < 0.5 else (len(db) + rng.randrange(1, 5)).to_bytes(4, 'little') + raw[4:]
            seeddb._seeds.clear()
            try:
                seeddb.load_seeddb(io.BytesIO(cut))
                impl2 = ','.join('%x:%s' % (k, v.hex()) for k, v in seeddb._seeds.items())
            except Exception as ex:
                impl2 = 'e:' + pyenv.errname(ex)
            out2 = model('codec seeddb ' + hx(cut)).split(' ')[0]
            if out2 != impl2:
                ctx.diff('corr', 'seeddb-model-truncated', dict(case, cut=cut.hex()), out2[:120], impl2[:120], 'seed DB (truncated image): Coq model and implementation differ')
            seeddb._seeds.clear()
            seeddb._seeds.update(back)
            ctx.stat('seeddb_model')
        check(ctx, 'seeddb-roundtrip', case, back == db, len(db), len(back), 'seed DB load(save(db)) != db')
        if db:
            # loading is an update: what the file says replaces what was in memory for the same title id, the rest stays
            seeddb._seeds.clear()
            stale = {k: bytes(b ^ 0xFF for b in v) for k, v in list(db.items())[::2]}
            extra_id = next(i for i in range(1 << 20) if i not in db)
            stale[extra_id] = pyenv.rbytes(rng, 16)
            for k, v in stale.items():
                seeddb.add_seed(k, v)
            seeddb.load_seeddb(io.BytesIO(raw))
            want = dict(stale)
            want.update(db)
            check(ctx, 'seeddb-load-updates', case, dict(seeddb._seeds) == want, 'the seeds of the file, plus the untouched ones', 'other seeds',
                  'loading a seed DB over seeds already in memory does not give the file\'s seeds for its title ids')
            seeddb._seeds.clear()
            seeddb._seeds.update(back)
        out2 = io.BytesIO()
        seeddb.save_seeddb(out2)
        check(ctx, 'seeddb-canonical', case, out2.getvalue() == raw and len(raw) == 0x10 + 0x20 * len(db), len(raw), len(out2.getvalue()), 'seed DB save(load(img)) != img')
    except Exception as ex:
        check(ctx, 'seeddb-raises', case, False, 'round trip', pyenv.errname(ex), 'seed DB round trip raised')
    finally:
        seeddb._seeds.clear()
        seeddb._seeds.update(saved)


def t_ncsd(ctx, rng):
    from pyctr.type.nand import NANDNCSDHeader
    hdr = bytearray(pyenv.rbytes(rng, 0x200))
    hdr[0x100:0x104] = b'NCSD'
    hdr[0x104:0x108] = rng.choice([0x200000, 0x280000]).to_bytes(4, 'little')
    hdr[0x108:0x110] = bytes(8)
    kinds = [(1, 1), (1, 2), (1, 3), (3, 2), (3, 2), (4, 2), (0, 0), (0, 0)]
    rng.shuffle(kinds)
    if rng.random() < 0.3:
        kinds = [(1, 1), (1, 1), (3, 2), (3, 2), (4, 2), (1, 2), (0, 0), (0, 0)][:8]   # 5 standard + one more, no duplicate type
    for i, (fs, cr) in enumerate(kinds):
        hdr[0x110 + i] = fs
        hdr[0x118 + i] = cr
        if fs:
            hdr[0x120 + 8 * i:0x128 + 8 * i] = struct.pack('<II', rng.getrandbits(20), rng.getrandbits(20))
        else:
            hdr[0x120 + 8 * i:0x128 + 8 * i] = bytes(8)
    hdr = bytes(hdr)
    case = dict(t='ncsd', hdr=hdr.hex())
    ctx.case(case)
    try:
        h = NANDNCSDHeader.from_bytes(hdr)
        out = bytes(h)
        check(ctx, 'ncsd-canonical', case, out == hdr, hdr.hex()[0x200:0x2A0], out.hex()[0x200:0x2A0], 'NCSD header serialise(parse(b)) != b')
        h2 = NANDNCSDHeader.from_bytes(out)
        check(ctx, 'ncsd-roundtrip', case, h2 == h, 'equal', 'different', 'NCSD header parse(serialise(v)) != v')
    except Exception as ex:
        from pyctr.type.nand import InvalidNANDError
        dup = isinstance(ex, InvalidNANDError) and 'Duplicate' in str(ex)
        if not dup:
            check(ctx, 'ncsd-raises', case, False, 'round trip', pyenv.errname(ex) + ': ' + str(ex)[:80], 'NCSD header round trip raised')


def t_partdesc(ctx, rng):
    from pyctr.type.save.partdesc.difi import DIFI
    from pyctr.type.save.partdesc.ivfc import IVFC
    from pyctr.type.save.partdesc.dpfs import DPFS
    r64 = lambda: rng.choice([0, 1, (1 << 64) - 1, rng.getrandbits(64), rng.getrandbits(20)])
    difi = b'DIFI\0\0\1\0' + b''.join(r64().to_bytes(8, 'little') for _ in range(6)) + bytes([rng.choice([0, 1]), rng.getrandbits(8), 0, 0]) + r64().to_bytes(8, 'little')
    ivfc = b'IVFC\0\0\2\0' + r64().to_bytes(8, 'little') + b''.join(r64().to_bytes(8, 'little') + r64().to_bytes(8, 'little') + rng.randrange(0, 25).to_bytes(4, 'little') + bytes(4) for _ in range(4)) + r64().to_bytes(8, 'little')
    dpfs = b'DPFS\0\0\1\0' + b''.join(r64().to_bytes(8, 'little') + r64().to_bytes(8, 'little') + rng.randrange(0, 25).to_bytes(4, 'little') + bytes(4) for _ in range(3))
    # malformed variants for the modelled descriptors: magic, length, block-size exponent
    k = rng.randrange(6)
    if k == 0:
        ivfc = bytes([ivfc[0] ^ 1]) + ivfc[1:]
    elif k == 1:
        dpfs = dpfs + b'\0'
    elif k == 2:
        o = 0x10 + 0x18 * rng.randrange(4) + 0x10
        ivfc = ivfc[:o] + rng.choice([64, 65, 0xFFFFFFFF]).to_bytes(4, 'little') + ivfc[o + 4:]
    elif k == 3:
        o = 0x8 + 0x18 * rng.randrange(3) + 0x10
        dpfs = dpfs[:o] + rng.choice([63, 64, 1 << 31]).to_bytes(4, 'little') + dpfs[o + 4:]
    for name, cls, raw in (('ivfc', IVFC, ivfc), ('dpfs', DPFS, dpfs)):
        out = model('codec %s %s' % (name, hx(raw)))
        if out is None:
            break
        case = dict(t=name + '-model', raw=raw.hex())
        ctx.case(case)
        try:
            v = cls.from_bytes(raw)
            lv = [getattr(v, 'lv%d' % i) for i in range(1, 5 if name == 'ivfc' else 4)]
            impl = ','.join('%x:%x:%x' % (l.offset, l.size, l.block_size_log2) for l in lv)
            if name == 'ivfc':
                impl += ' %x %x' % (v.master_hash_size, v.descriptor_size)
            impl += ' ' + hx(v.to_bytes())
        except Exception as ex:
            impl = 'e:' + pyenv.errname(ex)
        if out != impl:
            ctx.diff('corr', name + '-model', case, out[:120], impl[:120], f'{name.upper()} descriptor: Coq model and implementation differ')
        ctx.stat(name + '_model')
    if k < 4:
        return            # the round trips below are about well-formed descriptors
    for name, cls, raw in (('difi', DIFI, difi), ('ivfc', IVFC, ivfc), ('dpfs', DPFS, dpfs)):
        case = dict(t=name, raw=raw.hex())
        ctx.case(case)
        try:
            v = cls.from_bytes(raw)
            out = v.to_bytes()
            check(ctx, name + '-canonical', case, out == raw, raw.hex(), out.hex(), f'{name.upper()} to_bytes(from_bytes(b)) != b')
            check(ctx, name + '-roundtrip', case, cls.from_bytes(out) == v, 'equal', 'different', f'{name.upper()} from_bytes(to_bytes(v)) != v')
        except Exception as ex:
            check(ctx, name + '-raises', case, False, 'round trip', pyenv.errname(ex), f'{name.upper()} round trip raised')


def t_lzss(ctx, rng):
    from pyctr.type.exefs import decompress_code
    kind = rng.randrange(6)
    n = rng.choice([20, 64, 200, 700, 1500, 4200])
    if kind == 0:
        d = bytes(rng.choice(b'ab') for _ in range(n))
    elif kind == 1:
        d = pyenv.rbytes(rng, max(4, n // 4)) * 4 + b'tail' * 3
    elif kind == 2:
        d = b'\0' * n
    elif kind == 3:
        d = pyenv.rbytes(rng, 60) + bytes(rng.choice(b'xyz') for _ in range(n))           # incompressible head
    elif kind == 4:
        d = bytes(rng.choice(b'xyz') for _ in range(n)) + pyenv.rbytes(rng, 40)           # incompressible tail
    else:
        unit = pyenv.rbytes(rng, rng.choice([1, 2, 3, 5, 17]))
        d = (unit * (n // len(unit) + 1))[:n]                                               # overlapping matches
    mode = rng.randrange(3)
    sub = random.Random(rng.randrange(1 << 30))
    code, info = lzss.compress(d, sub if mode else None, greedy=(mode != 2))
    case = dict(t='lzss', kind=kind, n=len(d), mode=mode, data=d.hex() if len(d) <= 256 else None, dseed=None)
    if code is None:
        ctx.stat('lzss_incompressible')
        return
    case['code'] = code.hex() if len(code) <= 600 else None
    case['info'] = info
    ctx.case(case)
    ctx.stat('lzss_matches', info['matches'])
    try:
        out = decompress_code(code)
        check(ctx, 'lzss-roundtrip', case, out == d, len(d), len(out), 'decompress_code(compress(data)) != data')
        if len(code) <= 1600:
            m = model('lzss ' + hx(code))
            if m is not None and m != 'ok:' + out.hex():
                ctx.diff('corr', 'lzss-model', case, m[:80], out.hex()[:80], 'LZSS decoder: Coq model and decompress_code differ on reference-compressor output')
            ctx.stat('lzss_model')
    except Exception as ex:
        check(ctx, 'lzss-raises', case, False, 'the data', pyenv.errname(ex) + ': ' + str(ex), 'decompress_code raised on reference-compressor output')


MR = [None]          # the extracted model, when a run has opened it


def model(line):
    return MR[0].ask(line) if MR[0] is not None else None


TESTS = [t_apptitle, t_smdh, t_config, t_config_blocks, t_seeddb, t_ncsd, t_partdesc, t_lzss]


def run_all(ctx, rng, n):
    weights = {t_apptitle: 4, t_smdh: 1, t_config: 2, t_config_blocks: 2, t_seeddb: 2, t_ncsd: 2, t_partdesc: 3, t_lzss: 3}
    pool = [t for t in TESTS for _ in range(weights[t])]
    for _ in range(n):
        t = rng.choice(pool)
        ctx.stat(t.__name__)
        t(ctx, rng)


def run(ctx):
    proof = prove('C20', ['tmd', 'smdh', 'difi'], ['C20_props'], static_deps=['Proofs/CfgSaveProofs.v', 'Proofs/AppTitleProofs.v', 'Base/Sweep.v', 'Base/Fields.v', 'Base/PyInt.v', 'Proofs/CodecsProofs.v', 'Proofs/NandProofs.v'])
    MR[0] = ModelRunner()
    try:
        run_all(ctx, ctx.rng, ctx.n(700, 30000))
    finally:
        MR[0].close()
        MR[0] = None
    t_words_exhaustive(ctx)
    t_pixels_exhaustive(ctx)

    def search():
        c2 = Ctx('C20', 'thorough', ctx.seed + 1)
        run_all(c2, c2.rng, 10000)
        bad = [d for d in c2.diffs if d['kind'] == 'oracle']
        return bad[0] if bad else None

    return finish(ctx, proof,
                  'random values of every type named in the property (strings at field width, non-BMP, embedded NULs; all strict-table block ids; '
                  'random seed DBs; NCSD headers with shuffled partition tables; descriptors with boundary 64-bit values; code images with long/short/'
                  'overlapping matches and incompressible heads/tails compressed by the reference compressor in three modes); exhaustive: all 65 536 '
                  'version/type words, all 65 536 colours, every pixel position of both icon sizes',
                  TRUSTED, ASSUME, extra_cov={'exhaustive': False}, search=search)


def replay(ctx, path):
    with open(path) as f:
        payload = json.load(f)
    print('replay case:', json.dumps(payload['case'])[:400])
    c = payload['case']
    if c.get('t') == 'lzss' and c.get('code'):
        from pyctr.type.exefs import decompress_code
        try:
            out = decompress_code(bytes.fromhex(c['code']))
            ok = c.get('data') and out == bytes.fromhex(c['data'])
            print('REPRODUCED' if not ok else 'passes')
            return 0 if ok else 1
        except Exception as ex:
            print('REPRODUCED:', ex)
            return 1
    run_all(ctx, random.Random(payload['seed']), 700)
    return 1 if ctx.diffs else 0
