"""C08 -- key scrambler and keyslot state."""
import json

from ..core import Ctx, ModelRunner, prove, finish, hx, unhx, zhex
from .. import pyenv

W = 1 << 128
C3DS = 0x1FF9E9AAC5FE0408024591DC5D52768A
CTWL = 0xFFFEFB4E295902582A680F5F1A4F3E79
NSLOTS = 0x45

TRUSTED = [
    'Coq 8.16.1 kernel (coqc); vm_compute only in Examples; no native_compute',
    'axioms: none (every Print Assumptions reports "Closed under the global context")',
    'translator harness/py2gallina.py for rol / keygen_manual / keygen_twl_manual (regenerated on every run)',
    'hand model coq/Model/Engine.v of set_keyslot / set_normal_key / update_normal_keys / keygen / factories, tied by the correspondence run',
    'extraction: ExtrOcamlBasic only (Extract Inductive for bool, list, option, prod, unit, sumbool, sumor); no Extract Constant; ocaml/driver*.ml glue',
    'to_bytes overflow modelled as a separate proved side condition (C08_no_overflow)',
]
ASSUME = [
    'engine construction (__init__, _setup_keys_from_keyblob, _set_fixed_keys) is not modelled: the model starts from the dictionaries the real constructor produced',
    'clone() isolation and cipher factories are checked on the implementation against the property directly (oracle), the functional model has no aliasing',
    'bootROM key blobs are synthetic (random 0x400-byte blobs installed through module globals)',
]


def rotl(v, k):
    k %= 128
    return ((v << k) | (v >> (128 - k))) & (W - 1) if k else v


def scramble(slot, x, y):
    if slot < 4:
        return rotl(((x ^ y) + CTWL) % W, 42).to_bytes(16, 'big')
    return rotl(((rotl(x, 2) ^ y) + C3DS) % W, 87).to_bytes(16, 'big')


def gen_key(rng, slot=None):
    c = rng.randrange(8)
    if c == 0:
        return 0
    if c == 1:
        return 1
    if c == 2:
        return 1 << 127
    if c == 3:
        return W - 1
    if c == 4:   # forces a carry out of bit 127 in the addition for most partners
        return (W - 1) ^ rng.getrandbits(20)
    return rng.getrandbits(128)


def gen_slot(rng):
    c = rng.randrange(10)
    if c < 3:
        return rng.choice([0, 1, 2, 3])
    if c < 6:
        return rng.choice([4, 5, 0x18, 0x25, 0x2C, 0x34, 0x3D, 0x40, 0x44])
    return rng.randrange(NSLOTS)


def gen_ops(rng, n):
    ops = []
    hot = [gen_slot(rng) for _ in range(3)]
    for _ in range(n):
        slot = rng.choice(hot) if rng.random() < 0.7 else gen_slot(rng)
        c = rng.randrange(10)
        again = [o for o in ops if o[0] == 'K']
        if again and rng.random() < 0.15:
            # the same X or Y value once more (after whatever happened in between: a directly set normal key, a deferred change of
            # the other half): the normal key must be regenerated all the same
            o = rng.choice(again)
            ops.append(['K', o[1], o[2], o[3], 1])
            continue
        if rng.random() < 0.12:
            # ticket load: common KeyY `index` into slot 0x3D (dev engines: the fixed dev key for index 0), title key decrypted into 0x40
            ops.append(['T', rng.randrange(6), pyenv.rbytes(rng, 16).hex(), pyenv.rbytes(rng, 8).hex(), rng.randrange(2)])
            continue
        if c < 4:
            ops.append(['K', rng.randrange(2), slot, gen_key(rng), int(rng.random() < 0.6)])
        elif c < 6:
            # byte-string keys in the three spellings Python has for them: bytes, bytearray, memoryview
            ops.append(['B', rng.randrange(2), slot, gen_key(rng).to_bytes(16, 'big').hex(), int(rng.random() < 0.6), rng.choice([0, 0, 1, 2])])
        elif c < 8:
            # ... a bytearray handed in as normal key is changed by the caller right afterwards: the engine holds what it was given then
            ops.append(['N', slot, pyenv.rbytes(rng, 16).hex(), rng.choice([0, 0, 1])])
        else:
            ops.append(['R'])
    return ops


def dump_engine(e):
    out = []
    for s in range(NSLOTS):
        out.append((e.key_x.get(s), e.key_y.get(s), e.key_normal.get(s)))
    return out


def init_ops(e):
    """the real constructor's dictionaries as model operations"""
    ops = []
    for s, v in e.key_x.items():
        ops.append(['K', 1, int(s), v, 0])
    for s, v in e.key_y.items():
        ops.append(['K', 0, int(s), v, 0])
    for s, v in e.key_normal.items():
        ops.append(['N', int(s), v.hex()])
    return ops


def apply_impl(e, op):
    if op[0] == 'T':
        from pyctr.crypto.engine import KeyslotMissingError
        try:
            if op[4]:
                t = bytearray(0x2AC)
                t[0x1BF:0x1CF], t[0x1DC:0x1E4], t[0x1F1] = bytes.fromhex(op[2]), bytes.fromhex(op[3]), op[1]
                e.load_from_ticket(bytes(t))
            else:
                e.load_encrypted_titlekey(bytes.fromhex(op[2]), op[1], bytes.fromhex(op[3]) if op[1] % 2 else op[3])
        except KeyslotMissingError:
            pass       # slot 0x3D without a normal key: the specification says so too (checked through the state)
        return
    if op[0] == 'K':
        e.set_keyslot('x' if op[1] else 'y', op[2], op[3], update_normal_key=bool(op[4]))
    elif op[0] == 'B':
        spell = op[5] if len(op) > 5 else 0
        key = bytes.fromhex(op[3])
        e.set_keyslot('x' if op[1] else 'y', op[2], key if spell == 0 else bytearray(key) if spell == 1 else memoryview(key), update_normal_key=bool(op[4]))
    elif op[0] == 'N':
        if len(op) > 3 and op[3]:
            ba = bytearray.fromhex(op[2])
            e.set_normal_key(op[1], ba)
            ba[0] ^= 0xFF
            ba[15] ^= 0x01
        else:
            e.set_normal_key(op[1], bytes.fromhex(op[2]))
    else:
        e.update_normal_keys()


def op_line(op):
    if op[0] == 'K':
        return f'K {op[1]} {zhex(op[2])} {zhex(op[3])} {op[4]}'
    if op[0] == 'B':
        return f'B {op[1]} {zhex(op[2])} h:{op[3]} {op[4]}'
    if op[0] == 'N':
        return f'N {zhex(op[1])} h:{op[2]}'
    return 'R'


def parse_dump(line):
    out = []
    for tok in line.split(' '):
        x, y, n = tok.split(',')
        out.append((None if x == '-' else int(x, 16), None if y == '-' else int(y, 16),
                    None if n == '-' else unhx(n)))
    return out


def spec_machine(init, ops, dev=False, expanded=None):
    """the property read literally: an independent Python oracle; ticket loads are also written out as primitive operations
    (`expanded`), which is what the Coq model is given"""
    from Cryptodome.Cipher import AES
    from ..builders import pack as P
    st = [list(t) for t in init]
    for op in ops:
        if op[0] == 'T':
            if dev and op[1] == 0:
                prim = [['N', 0x3D, P.DEV_COMMON_KEY_0.hex()]]
            else:
                prim = [['K', 0, 0x3D, P.COMMON_KEY_Y[op[1]], 1]]
            st = [list(t) for t in spec_machine([tuple(t) for t in st], prim)]
            if st[0x3D][2] is not None:
                tk = AES.new(st[0x3D][2], AES.MODE_CBC, bytes.fromhex(op[3]) + bytes(8)).decrypt(bytes.fromhex(op[2]))
                prim.append(['N', 0x40, tk.hex()])
                st[0x40][2] = tk
            if expanded is not None:
                expanded.extend(prim)
            continue
        if expanded is not None:
            expanded.append(op)
        if op[0] in ('K', 'B'):
            slot = op[2]
            key = op[3] if op[0] == 'K' else int.from_bytes(bytes.fromhex(op[3]), 'big' if slot > 3 else 'little')
            st[slot][0 if op[1] else 1] = key
            if op[4] and st[slot][0] is not None and st[slot][1] is not None:
                st[slot][2] = scramble(slot, st[slot][0], st[slot][1])
        elif op[0] == 'N':
            st[op[1]][2] = bytes.fromhex(op[2])
        else:
            for s in range(NSLOTS):
                if st[s][0] is not None and st[s][1] is not None:
                    st[s][2] = scramble(s, st[s][0], st[s][1])
    return [tuple(t) for t in st]


def first_diff(a, b):
    for s, (p, q) in enumerate(zip(a, b)):
        if p != q:
            return s, p, q
    return None


def fmt(t):
    def h(v):
        return None if v is None else hex(v) if isinstance(v, int) else repr(v)
    return None if t is None else [h(t[0]), h(t[1]), None if t[2] is None else bytes(t[2]).hex()]


def engine_case(ctx, mr, rng, case):
    from pyctr.crypto.engine import CryptoEngine
    mode, dev, ops = case['mode'], case['dev'], case['ops']
    if mode == 'b9':
        pyenv.install_fake_boot9(case['b9seed'])
        e = CryptoEngine(dev=dev)
    else:
        pyenv.uninstall_fake_boot9()
        e = CryptoEngine(dev=dev, setup_b9_keys=False)
    init = init_ops(e)
    init_dump = dump_engine(e)
    # a second engine made the same way in the same process: what happens to the first one is none of its business
    twin = CryptoEngine(dev=dev) if mode == 'b9' else CryptoEngine(dev=dev, setup_b9_keys=False)
    twin_dump = dump_engine(twin)
    # file wrappers made BEFORE the key operations: a wrapper is bound to the engine and the slot, not to the key the slot held (or
    # lacked) when it was made
    import io as _io
    early = {}
    for slot in sorted({o[2] for o in ops if o[0] in ('K', 'B')} | {o[1] for o in ops if o[0] == 'N'} | ({0x40} if any(o[0] == 'T' for o in ops) else set()))[:4]:
        ectr = rng.getrandbits(100)
        eiv = pyenv.rbytes(rng, 16)
        early[slot] = (ectr, eiv, e.create_ctr_io(slot, _io.BytesIO(b'\0' * 32), ectr), e.create_cbc_io(slot, _io.BytesIO(b'\0' * 32), eiv))
        if rng.random() < 0.5:
            for w in early[slot][2:]:
                try:
                    w.read(16)              # a first look at the file under whatever the slot holds now
                except Exception:
                    pass
    err = None
    try:
        for op in ops:
            apply_impl(e, op)
    except Exception as ex:  # no key operation may raise
        err = pyenv.errname(ex)
    got = dump_engine(e)
    odd = [(s_, t) for s_, t in enumerate(got) if not all(v is None or isinstance(v, int) for v in t[:2])]
    if odd:
        ctx.diff('oracle', 'keyslot-type', case, 'integers as X and Y keys', fmt(odd[0][1]), f'slot {odd[0][0]:#x}: a byte-string key was stored as it came '
                 'instead of being read as an integer (the next key operation on the slot fails)' + (f'; then {err}' if err else ''))
        return
    prim = []
    spec = spec_machine(init_dump, ops, dev, prim)
    model = parse_dump(mr.ask('engine ' + ' '.join(op_line(o) for o in init + prim)))
    ctx.stat('engine_histories')
    if err:
        ctx.diff('oracle', 'engine-op-raises:' + err, case, 'no exception', err, f'key operation raised {err}')
        return
    d = first_diff(spec, got)
    if d:
        ctx.diff('oracle', 'keyslot-state', case, fmt(d[1]), fmt(d[2]),
                 f'slot {d[0]:#x}: implementation state differs from the scrambler/keyslot specification')
    d = first_diff(model, got)
    if d and not first_diff(spec, got):
        ctx.diff('corr', 'keyslot-model', case, fmt(d[1]), fmt(d[2]), f'slot {d[0]:#x}: Coq model differs from implementation')
    # factories use exactly key_normal; missing -> KeyslotMissingError
    from Cryptodome.Cipher import AES
    from pyctr.crypto.engine import KeyslotMissingError
    for slot in rng.sample(range(NSLOTS), 6):
        want = spec[slot][2]
        for kind in ('ctr', 'cbc', 'ecb', 'cmac', 'ctrio'):
            ctx.stat('factory_probes')
            try:
                if kind == 'ctr':
                    ctr = rng.getrandbits(100)
                    c = e.create_ctr_cipher(slot, ctr)
                    out = c.encrypt(b'\0' * 16)
                    ks = AES.new(want, AES.MODE_ECB).encrypt(ctr.to_bytes(16, 'big')) if want is not None else None
                    exp = ks if slot >= 4 else (ks[::-1] if ks else None)
                elif kind == 'cbc':
                    iv = pyenv.rbytes(rng, 16)
                    out = e.create_cbc_cipher(slot, iv).encrypt(b'\0' * 16)
                    exp = AES.new(want, AES.MODE_ECB).encrypt(iv) if want is not None else None
                elif kind == 'ecb':
                    blk = pyenv.rbytes(rng, 16)
                    out = e.create_ecb_cipher(slot).encrypt(blk)
                    exp = AES.new(want, AES.MODE_ECB).encrypt(blk) if want is not None else None
                elif kind == 'cmac':
                    from Cryptodome.Hash import CMAC
                    out = e.create_cmac_object(slot).update(b'abc').digest()
                    exp = CMAC.new(want, ciphermod=AES).update(b'abc').digest() if want is not None else None
                else:
                    import io
                    ctr = rng.getrandbits(100)
                    f = e.create_ctr_io(slot, io.BytesIO(b'\0' * 16), ctr)
                    out = f.read(16)
                    ks = AES.new(want, AES.MODE_ECB).encrypt(ctr.to_bytes(16, 'big')) if want is not None else None
                    exp = ks if slot >= 4 else (ks[::-1] if ks else None)
                res = out
            except KeyslotMissingError:
                res = 'KeyslotMissingError'
            except Exception as ex:
                res = pyenv.errname(ex)
            expected = exp if want is not None else 'KeyslotMissingError'
            if res != expected:
                ctx.diff('oracle', f'factory-{kind}', dict(case, slot=slot, factory=kind),
                         expected.hex() if isinstance(expected, bytes) else expected,
                         res.hex() if isinstance(res, bytes) else res,
                         f'{kind} factory for slot {slot:#x} does not use the slot\'s normal key / wrong error')
    ctx.stat('twin_engines')
    if dump_engine(twin) != twin_dump:
        d_ = first_diff(twin_dump, dump_engine(twin))
        ctx.diff('oracle', 'engine-aliasing', case, fmt(d_[1]), fmt(d_[2]),
                 f'slot {d_[0]:#x}: key operations on one engine changed another engine made by the same constructor call')
    for slot, (ectr, eiv, fctr, fcbc) in early.items():
        want = spec[slot][2]
        for kind, f in (('ctrio', fctr), ('cbcio', fcbc)):
            ctx.stat('early_wrapper_probes')
            try:
                f.seek(0)
                res = f.read(16)
            except KeyslotMissingError:
                res = 'KeyslotMissingError'
            except Exception as ex:
                res = pyenv.errname(ex)
            if want is None:
                expected = 'KeyslotMissingError'
            elif kind == 'ctrio':
                ks = AES.new(want, AES.MODE_ECB).encrypt(ectr.to_bytes(16, 'big'))
                expected = ks if slot >= 4 else ks[::-1]
            else:
                expected = AES.new(want, AES.MODE_CBC, eiv).decrypt(b'\0' * 16)
            if res != expected:
                ctx.diff('oracle', f'early-wrapper-{kind}', dict(case, slot=slot, factory=kind),
                         expected.hex() if isinstance(expected, bytes) else expected, res.hex() if isinstance(res, bytes) else res,
                         f'{kind} wrapper for slot {slot:#x} made before the key operations does not read under the normal key the slot holds now')
    # clone isolation, both directions, however the engine was built
    ctx.stat('clone_probes')
    try:
        c = e.clone()
    except Exception as ex:
        ctx.diff('oracle', 'clone-raises:' + pyenv.errname(ex), case, 'a clone', pyenv.errname(ex),
                 f'clone() raised {pyenv.errname(ex)} (engine built with mode={mode})')
        return
    if dump_engine(c) != got:
        ctx.diff('oracle', 'clone-state', case, 'same key state', 'different', 'clone does not carry the key state')
    if bool(getattr(c, 'dev', None)) != bool(dev):
        ctx.diff('oracle', 'clone-dev', case, dev, getattr(c, 'dev', None), 'the clone of a dev / retail engine is not a dev / retail engine')
    more = gen_ops(rng, 6) + [['T', 0, pyenv.rbytes(rng, 16).hex(), pyenv.rbytes(rng, 8).hex(), rng.randrange(2)]]
    before = dump_engine(e)
    err = None
    try:
        for op in more:
            apply_impl(c, op)
    except Exception as ex:
        err = pyenv.errname(ex)
    want_c = spec_machine(got, more, dev)
    d = first_diff(want_c, dump_engine(c)) if err is None else (0, None, None)
    if d:
        ctx.diff('oracle', 'clone-behaviour', dict(case, more=more), fmt(d[1]) if err is None else 'no exception', fmt(d[2]) if err is None else err,
                 f'slot {d[0]:#x}: key operations on the clone do not give the state the specification gives for an engine like the original')
    if dump_engine(e) != before:
        ctx.diff('oracle', 'clone-aliasing', dict(case, more=more), 'original unchanged', 'original changed',
                 'operations on the clone changed the original engine')
    before_c = dump_engine(c)
    try:
        for op in gen_ops(rng, 6):
            apply_impl(e, op)
    except Exception as ex:
        ctx.diff('oracle', 'engine-op-raises:' + pyenv.errname(ex), case, 'no exception', pyenv.errname(ex), f'key operation raised {pyenv.errname(ex)}')
    if dump_engine(c) != before_c:
        ctx.diff('oracle', 'clone-aliasing', dict(case, more=more), 'clone unchanged', 'clone changed',
                 'operations on the original changed the clone')


def scrambler_case(ctx, rng, case):
    from pyctr.crypto.engine import CryptoEngine, rol
    x, y = case['x'], case['y']
    ctx.stat('scrambler_pairs')
    a = CryptoEngine.keygen_manual(x, y)
    b = CryptoEngine.keygen_twl_manual(x, y)
    if a != scramble(4, x, y):
        ctx.diff('oracle', 'scramble3ds', case, scramble(4, x, y).hex(), a.hex(), '3DS scrambler output differs from the formula')
    if b != scramble(0, x, y):
        ctx.diff('oracle', 'scrambletwl', case, scramble(0, x, y).hex(), b.hex(), 'DSi scrambler output differs from the formula')
    r = case['r']
    if rol(x, r, 128) != rotl(x, r):
        ctx.diff('oracle', 'rol', case, hex(rotl(x, r)), hex(rol(x, r, 128)), 'rol is not a 128-bit rotation')


def gen_cases(ctx, rng):
    n_hist = ctx.n(150, 3000)
    n_pairs = ctx.n(400, 20000)
    for i in range(n_hist):
        mode = 'b9' if rng.random() < 0.5 else 'nob9'
        yield dict(kind='engine', mode=mode, dev=rng.random() < 0.3, b9seed=rng.randrange(1 << 30),
                   ops=gen_ops(rng, rng.randrange(1, 14)))
    for i in range(n_pairs):
        yield dict(kind='scr', x=gen_key(rng), y=gen_key(rng), r=rng.choice([0, 1, 2, 42, 87, 127, 128, 129, rng.randrange(400)]))


def run_cases(ctx, cases):
    mr = ModelRunner()
    try:
        for case in cases:
            ctx.case(case)
            if case['kind'] == 'engine':
                engine_case(ctx, mr, ctx.rng, case)
            else:
                scrambler_case(ctx, ctx.rng, case)
    finally:
        mr.close()
        pyenv.uninstall_fake_boot9()


def run(ctx):
    proof = prove('C08', ['engine'], ['C08_bridge', 'C08_props'],
                  static_deps=['Spec/Scrambler.v', 'Proofs/EngineProofs.v', 'Base/PyInt.v'])
    run_cases(ctx, gen_cases(ctx, ctx.rng))

    def search():
        c2 = Ctx('C08', 'thorough', ctx.seed + 1)
        run_cases(c2, gen_cases(c2, c2.rng))
        bad = [d for d in c2.diffs if d['kind'] == 'oracle']
        return bad[0] if bad else None

    return finish(ctx, proof,
                  'seeded random histories of set-X/set-Y (int and bytes, updating or deferred)/set-normal/refresh over hot '
                  'slots with operand classes {0,1,2^127,2^128-1,carry-forcing,random}, engines with synthetic bootROM blobs '
                  'and without, retail/dev; scrambler operand pairs; non-trivial = distinct case', TRUSTED, ASSUME, search=search)


def replay(ctx, path):
    with open(path) as f:
        payload = json.load(f)
    case = payload['case']
    run_cases(ctx, [case])
    for d in ctx.diffs:
        print('REPRODUCED:', d['what'], 'expected', d['expected'], 'observed', d['observed'])
    return 1 if ctx.diffs else 0
