"""C04 -- the fully-decrypted NCCH view is one consistent, key-free image of the container."""
import io
import json
import random

from ..core import Ctx, ModelRunner, prove, finish, zhex, hx, unhx
from .. import pyenv, filecontract as fc, ncchcommon as nc

TRUSTED = [
    'Coq 8.16.1 kernel (coqc); no axioms',
    'hand model coq/Model/NcchFull.v of the FullDecrypted branch of NCCHReader.get_data (chunk classification, grouping dictionary, '
    'header patch, trimming), tied by the correspondence run (extracted model vs reader on the same region tables and offsets)',
    'per-section plaintexts are supplied by the independent builder harness/builders/ncch.py; section decryption itself is C03/C01',
    'extraction ExtrOcamlBasic only + ocaml/driver*.ml',
]
ASSUME = [
    'region tables are well formed for the theorem: 0x200-aligned, pairwise disjoint, inside the declared content size (malformed tables: C19)',
    'the handle layer (_ReaderOpenFileBase) is C09; here seek/read histories on one handle are checked by the contract oracle',
]


def expected_image(image, info, nocrypto=False):
    """one whole-image: plaintext of every section in place, raw bytes elsewhere, header flags patched
    (a container already flagged NoCrypto is served as it is)"""
    out = bytearray(image[:info['content_size']])
    if nocrypto:
        return bytes(out)
    for name, (o, sz) in info['regions'].items():
        out[o:o + sz] = info['plain'][name]
    out[0x18B] = 0
    out[0x18F] = 4
    return bytes(out)


def model_line(info, image, off, size):
    regs = []
    for name in ('romfs', 'exefs', 'header', 'extheader', 'logo', 'plain'):
        o, sz = info['regions'].get(name, (0, 0))
        regs.append(f'{zhex(o)},{zhex(sz)},{hx(info["plain"][name]) if name in info["plain"] else "h:"}')
    return f'fulldec {zhex(info["content_size"])} {hx(image[:info["content_size"]])} {" ".join(regs)} {zhex(off)} {zhex(size)}'


def run_case(ctx, mr, case):
    from pyctr.type.ncch import NCCHReader, NCCHSection
    from pyctr.crypto.engine import CryptoEngine
    spec = case['spec']
    image, info, kwargs = nc.build(spec)
    rng = random.Random(spec['dseed'] ^ 0xABCD)
    want = expected_image(image, info, spec['mode'] == 'nocrypto')
    ctx.stat('mode_' + spec['mode'])
    try:
        # lazy: without the nested readers (load_sections=False) the view is the same view
        r, bio = nc.open_reader(image, kwargs, start=case.get('start', 0), **(dict(load_sections=False) if case.get('lazy') else {}))
    except Exception as ex:
        ctx.diff('oracle', 'ncch-open-raises', case, 'a reader', pyenv.errname(ex), 'well-formed NCCH rejected')
        return
    try:
        # the section is named by the enum member or by its number: NCCHSection is an IntEnum and every table is keyed by value
        how = case.get('how', 0)
        ctx.stat('section_named_by_' + ('member', 'int', 'lookup')[how])
        try:
            f = r.open_raw_section((NCCHSection.FullDecrypted, int(NCCHSection.FullDecrypted), NCCHSection(int(NCCHSection.FullDecrypted)))[how])
        except Exception as ex:
            ctx.diff('oracle', 'fulldec:open-raises', case, 'a view', pyenv.errname(ex), f'opening the fully-decrypted view raised {pyenv.errname(ex)}')
            return

        def fail(sig, what, expected, observed):
            ctx.diff('oracle', 'fulldec:' + sig, case, str(expected)[:120], str(observed)[:120], f'fully-decrypted view: {what}')
        c = fc.Contract(f, want, fail, writable=False)
        n = len(want)
        ops = []
        bounds = sorted({0, n} | {o for o, sz in info['regions'].values()} | {o + sz for o, sz in info['regions'].values()})
        for _ in range(case.get('reads', 14)):
            b = rng.choice(bounds)
            o = max(0, min(n, b + rng.choice([-0x201, -0x200, -0x1FF, -1, 0, 1, 0x1FF, 0x200])))
            ln = rng.choice([-1, 0, 1, 2, 0x1FF, 0x200, 0x201, 0x3FF, 0x400, 0x1234, n, rng.randrange(0, n + 1)])
            ops += [['s', o, 0], ['r', ln]]
            if rng.random() < 0.3:
                ops += [['r', rng.choice([1, 0x200, 0x333])]]
        ops += [['s', -5, 2], ['r', 100], ['s', 0x18A, 0], ['r', 7]]
        # the two patched flag bytes (0x18B, 0x18F) met from every side: single bytes, reads that start or end exactly on them, a walk in
        # pieces over the flag field (fixed part of every history)
        for o in range(0x186, 0x193):
            ops += [['s', o, 0], ['r', 1]]
        for o in (0x189, 0x18A, 0x18B, 0x18C, 0x18D, 0x18E, 0x18F, 0x190):
            ops += [['s', o, 0], ['r', 0x18F - o + 1 if o < 0x18F else 2], ['s', o, 0], ['r', 5]]
        ops += [['s', 0x188, 0], ['r', 3], ['r', 1], ['r', 3], ['r', 1], ['r', 2]]
        # relative seeks that would leave the file at its front: the position stays at 0 (never negative), reads go on from there
        ops += [['s', -(n + 7), 2], ['t'], ['r', 5], ['s', -(10 ** 6), 1], ['t'], ['r', 0x203], ['s', 3, 0], ['s', -4, 1], ['r', 2]]
        c.run(ops)
        if r.content_size != info['content_size'] or len(want) != info['content_size']:
            fail('size', 'image size differs from the declared container size', info['content_size'], r.content_size)
        # correspondence with the Coq model on a few (offset, size) pairs, through get_data directly
        if info['content_size'] <= 0x6000:
            for _ in range(3):
                o = rng.randrange(0, n + 1)
                ln = rng.choice([0, 1, 0x200, 0x201, rng.randrange(0, n - o + 1)])
                got = r.get_data(NCCHSection.FullDecrypted, o, ln)
                out = mr.ask(model_line(info, image, o, ln))
                ctx.stat('model_reads')
                if unhx(out) != got:
                    ctx.diff('corr', 'fulldec-model', dict(case, off=o, size=ln), out[:80], hx(got)[:80],
                             f'fully-decrypted get_data({o:#x},{ln:#x}): Coq model and implementation differ')
    finally:
        r.close()
    # a header that declares MORE than the file holds (content size field raised, file unchanged): the view ends where the file ends,
    # and the Coq model with the file length as bound (Model/NcchFull.v fulldec_read_avail) returns the same bytes
    if info['content_size'] <= 0x6000 and rng.random() < 0.5:
        extra = rng.choice([1, 2, 0x10, 0x100000])
        over = bytearray(image[:info['content_size']])
        units = info['content_size'] // 0x200 + extra
        over[0x104:0x108] = units.to_bytes(4, 'little')
        over = bytes(over)
        info2 = dict(info, content_size=units * 0x200, plain=dict(info['plain'], header=over[:0x200]))
        try:
            r3, _ = nc.open_reader(over, kwargs)
        except Exception as ex:
            ctx.diff('oracle', 'fulldec-overdeclared-open', dict(case, extra=extra), 'a reader', pyenv.errname(ex), 'a header declaring more than the file holds made the container unopenable')
            r3 = None
        if r3 is not None:
            try:
                for _ in range(3):
                    o = rng.choice([0, rng.randrange(0, n + 1), n - 1, n, n + 0x200])
                    ln = rng.choice([1, 0x200, 0x201, n, units * 0x200, rng.randrange(0, n + 0x400)])
                    got = r3.get_data(NCCHSection.FullDecrypted, o, ln)
                    out = mr.ask(model_line(info2, over, o, ln).replace('fulldec ', 'fulldeca ', 1))
                    mbytes, munits = out.split(' ')
                    ctx.stat('model_reads_overdeclared')
                    if unhx(mbytes) != got:
                        ctx.diff('corr', 'fulldec-avail-model', dict(case, off=o, size=ln, extra=extra), mbytes[:80], hx(got)[:80],
                                 f'fully-decrypted get_data({o:#x},{ln:#x}) on a header declaring {extra} units more than the file holds: Coq model and implementation differ')
                    if len(got) > max(0, n - o):
                        ctx.diff('oracle', 'fulldec-overdeclared-bytes', dict(case, off=o, size=ln, extra=extra), max(0, n - o), len(got), 'more bytes came back than the file holds')
            finally:
                r3.close()
    # re-parse the image with an engine that holds no NCCH keys
    pyenv.uninstall_fake_boot9()
    e = CryptoEngine(setup_b9_keys=False)
    try:
        from pyctr.crypto import seeddb
        seeddb._seeds.clear()
        r2 = NCCHReader(io.BytesIO(want), crypto=e)
    except Exception as ex:
        ctx.diff('oracle', 'fulldec-reparse-raises', case, 'parses without keys', pyenv.errname(ex) + ': ' + str(ex)[:80], 're-parsing the decrypted image without keys failed')
        return
    try:
        if not r2.flags.no_crypto:
            ctx.diff('oracle', 'fulldec-reparse-flags', case, 'no_crypto', 'encrypted', 're-parsed image does not report itself unencrypted')
        for name in nc.SEC_NAMES:
            if name in info['plain'] and name != 'header':
                got = r2.open_raw_section(nc.sec_enum(name)).read()
                if got != info['plain'][name]:
                    ctx.diff('oracle', 'fulldec-reparse-section', dict(case, section=name), 'section plaintext', 'different', f're-parsed section {name} differs from the per-section view')
    finally:
        r2.close()


def gen_cases(ctx, rng):
    for _ in range(ctx.n(100, 3000)):
        yield dict(spec=nc.gen_spec(rng), start=rng.choice([0, 0, 0x200, 0x37]), reads=14, lazy=rng.random() < 0.2, how=rng.choice([0, 0, 1, 2]))


def run_cases(ctx, cases):
    mr = ModelRunner()
    try:
        for case in cases:
            ctx.case(case)
            run_case(ctx, mr, case)
    finally:
        mr.close()
        pyenv.uninstall_fake_boot9()


def run(ctx):
    proof = prove('C04', [], ['C04_props'], static_deps=['Proofs/NcchFullProofs.v', 'Proofs/NcchAvailProofs.v'])
    run_cases(ctx, gen_cases(ctx, ctx.rng))

    def search():
        c2 = Ctx('C04', 'thorough', ctx.seed + 1)
        run_cases(c2, (dict(spec=nc.gen_spec(c2.rng), reads=20) for _ in range(800)))
        bad = [d for d in c2.diffs if d['kind'] == 'oracle']
        return bad[0] if bad else None

    return finish(ctx, proof,
                  'the NCCH configurations of C03; per container: seek/read histories on the fully-decrypted handle with offsets at '
                  '{-0x201..+0x200} around every section boundary and sizes {-1,0,1,2,0x1FF,0x200,0x201,0x3FF,0x400,...}, compared with one '
                  'whole-image computed from the builder plaintexts; image size; re-parse of the image without keys and comparison of every section',
                  TRUSTED, ASSUME, search=search)


def replay(ctx, path):
    with open(path) as f:
        payload = json.load(f)
    case = {k: v for k, v in payload['case'].items() if k in ('spec', 'start', 'reads', 'lazy', 'how')}
    run_cases(ctx, [case])
    for d in ctx.diffs:
        print('REPRODUCED:', d['what'], 'expected', d['expected'], 'observed', d['observed'])
    return 1 if ctx.diffs else 0
