"""C03 -- every NCCH section view yields the section plaintext under every crypto scheme."""
import json
import random

from ..core import Ctx, ModelRunner, prove, finish, zhex
from .. import pyenv, filecontract as fc, ncchcommon as nc

TRUSTED = [
    'Coq 8.16.1 kernel (coqc); no axioms; AES is an uninterpreted function in C03_merged_view',
    'translator py2gallina.py: NCCHFlags.from_bytes, the section counter expression and the media-unit arithmetic regenerated each run',
    'hand model coq/Model/Ncch.v of the ExeFS crypto-range construction in load_sections, tied by the correspondence run against '
    'reader._exefs_crypto_ranges; section views themselves are CTR wrappers over windows (C01/C09)',
    'independent builder harness/builders/ncch.py (own key scrambler, AES-CTR from PyCryptodome ECB, SHA-256) = ground truth for plaintexts',
    'synthetic bootROM key blob (KeyX of slot 0x2C is read from the blob the harness installed)',
]
ASSUME = [
    'keyslot selection from the flags, seeded KeyY derivation and the seed check are decided by the oracle (builder ground truth) on the '
    'sampled crypto-method x seed x fixed-key x no-crypto x assume-decrypted product, not by a theorem',
    'ExeFS entry tables handed to the range theorem are sorted and disjoint (what a well-formed ExeFS has)',
]


def run_case(ctx, mr, case):
    from pyctr.type.ncch import NCCHSeedError
    spec = case['spec']
    image, info, kwargs = nc.build(spec)
    rng = random.Random(spec['dseed'] ^ 0x5555)
    start = case.get('start', 0)
    ctx.stat('mode_' + spec['mode'] + ('_seed' if spec['uses_seed'] else ''))
    ctx.stat('method_%x' % spec['method'])
    lazy = bool(case.get('lazy'))
    try:
        # lazy: the nested ExeFS / RomFS readers are not wanted (load_sections=False); the raw section views are the same views
        r, bio = nc.open_reader(image, kwargs, start=start, **(dict(load_sections=False) if lazy else {}))
        if lazy:
            ctx.stat('load_sections_false')
    except Exception as ex:
        ctx.diff('oracle', 'ncch-open-raises', case, 'a reader', pyenv.errname(ex) + ': ' + str(ex)[:100], f'well-formed NCCH rejected ({pyenv.errname(ex)})')
        return
    try:
        if spec['dseed'] % 3 == 0:
            # load_sections() is public: calling it again describes the same container, not a longer one
            try:
                r.load_sections()
                ctx.stat('sections_loaded_twice')
            except Exception as ex:
                ctx.diff('oracle', 'ncch-reload-raises', case, 'the same sections', pyenv.errname(ex), 'a second load_sections() raised')
        for name in nc.SEC_NAMES:
            if name not in info['plain']:
                if name != 'header' and nc.sec_enum(name) in r.sections:
                    ctx.diff('oracle', 'ncch-phantom-section', case, 'absent', 'present', f'section {name} reported but not packed')
                continue
            pt = info['plain'][name]
            try:
                f = r.open_raw_section(nc.sec_enum(name))
            except Exception as ex:
                ctx.diff('oracle', 'ncch-section-open', dict(case, section=name), 'a view', pyenv.errname(ex), f'opening section {name} raised')
                continue

            def fail(sig, what, expected, observed, name=name):
                ctx.diff('oracle', f'ncch-{name}:{sig}', dict(case, section=name), expected, observed, f'NCCH section {name}: {what}')
            c = fc.Contract(f, pt, fail, writable=False)
            ops = fc.gen_ops(rng, len(pt), 5, writable=False, whences=(0, 0, 1, 2))
            # boundary reads around ExeFS file boundaries
            if name == 'exefs' and info['exefs']:
                for fi in info['exefs'].values():
                    b = 0x200 + fi['offset']
                    ops += [['s', max(0, b - 3), 0], ['r', 7], ['s', max(0, b + fi['size'] - 3), 0], ['r', 7]]
            c.run(ops)
            ctx.stat('section_views')
        # ExeFS entries and file bytes through the nested reader
        if info['exefs'] is not None and getattr(r, 'exefs', None) is not None:
            want = {n: (fi['offset'], fi['size']) for n, fi in info['exefs'].items()}
            got = {n: (e.offset, e.size) for n, e in r.exefs.entries.items()}
            if got != want:
                ctx.diff('oracle', 'ncch-exefs-entries', case, want, got, 'nested ExeFS entries differ')
            pt = info['plain']['exefs']
            for n, fi in info['exefs'].items():
                with r.exefs.open(n, normalize=False) as fh:
                    data = fh.read()
                if data != pt[0x200 + fi['offset']:0x200 + fi['offset'] + fi['size']]:
                    ctx.diff('oracle', 'ncch-exefs-file', dict(case, file=n), 'file bytes', 'different', f'nested ExeFS file {n} differs')
        # correspondence: the crypto ranges against the Coq model
        if getattr(r, '_exefs_special_handling', False) and info['exefs'] is not None and hasattr(r, '_exefs_crypto_ranges'):
            size = len(info['plain']['exefs'])
            extra = sorted((0x200 + fi['offset'], 0x200 + fi['offset'] + fi['size']) for n, fi in info['exefs'].items()
                           if n not in ('icon', 'banner') and fi['size'])
            out = mr.ask('ranges ' + zhex(size) + ''.join(f' {zhex(a)},{zhex(b)}' for a, b in extra))
            model = [tuple(int(x, 16) for x in t.split(',')) for t in out.split(' ')] if out else []
            impl = [(a, b, int(bool(l))) for a, b, l in r._exefs_crypto_ranges]
            ctx.stat('range_tables')
            if model != impl:
                ctx.diff('corr', 'ncch-ranges-model', case, model, impl, 'ExeFS crypto ranges: Coq model and implementation differ')
        if info['romfs_tree'] is not None and getattr(r, 'romfs', None) is not None:
            from ..builders import romfs as R
            flat = R.flatten(info['romfs_tree'])
            for p, (kind, val) in flat.items():
                if kind == 'file' and r.romfs.openbin(p).read() != val:
                    ctx.diff('oracle', 'ncch-romfs-file', dict(case, file=p), 'file bytes', 'different', f'nested RomFS file {p} differs')
        # a seed offered to the open reader that does not match is refused, and a refusal leaves everything as it was: views opened
        # before and views opened now still give the plaintext
        if spec['uses_seed'] and spec['mode'] != 'nocrypto' and spec['dseed'] % 2:
            held = {}
            for name in nc.SEC_NAMES:
                if name in info['plain']:
                    try:
                        held[name] = r.open_raw_section(nc.sec_enum(name))
                    except Exception:
                        pass            # reported above
            try:
                r.setup_seed(bytes(b ^ 0x21 for b in kwargs['seed']))
                ctx.diff('oracle', 'ncch-bad-seed-accepted', case, 'NCCHSeedError', 'accepted', 'setup_seed accepted a seed that does not match the verification hash')
            except NCCHSeedError:
                ctx.stat('bad_setup_seed_refused')
            except Exception as ex:
                ctx.diff('oracle', 'ncch-bad-seed-error', case, 'NCCHSeedError', pyenv.errname(ex), 'wrong error for a bad seed')
            for name, f0 in held.items():
                for how, f in (('opened before', f0), ('opened after', None)):
                    try:
                        f = f or r.open_raw_section(nc.sec_enum(name))
                        f.seek(0)
                        got = f.read()
                    except Exception as ex:
                        got = pyenv.errname(ex)
                    if got != info['plain'][name]:
                        ctx.diff('oracle', 'ncch-after-refused-seed', dict(case, section=name), 'the section plaintext', 'something else',
                                 f'NCCH section {name}: a view {how} the refused setup_seed call no longer gives the plaintext')
    finally:
        r.close()
    # a seed that does not match the verification hash is refused
    if spec['uses_seed'] and spec['mode'] != 'nocrypto':
        # ... and the refusal leaves the process-wide seed database as it was: the container opened from the database before, so it does after
        from pyctr.type.ncch import NCCHReader
        import io
        try:
            NCCHReader(io.BytesIO(image), seed=bytes(b ^ 0x13 for b in kwargs['seed']), assume_decrypted=kwargs['assume_decrypted']).close()
            ctx.diff('oracle', 'ncch-bad-seed-accepted', case, 'NCCHSeedError', 'accepted', 'a seed that does not match the verification hash was accepted')
        except NCCHSeedError:
            pass
        except Exception as ex:
            ctx.diff('oracle', 'ncch-bad-seed-error', case, 'NCCHSeedError', pyenv.errname(ex), 'wrong error for a bad seed')
        try:
            NCCHReader(io.BytesIO(image), assume_decrypted=kwargs['assume_decrypted']).close()
            ctx.stat('reopened_from_seed_db')
        except Exception as ex:
            ctx.diff('oracle', 'ncch-seed-db-after-refusal', case, 'opens with the seed the database held', pyenv.errname(ex) + ': ' + str(ex)[:80],
                     'after a refused seed the container no longer opens from the seed database (the refused seed replaced the right one)')
        bad = dict(kwargs, seed=bytes(b ^ 0x40 for b in kwargs['seed']))
        try:
            r2, _ = nc.open_reader(image, bad)
            r2.close()
            ctx.diff('oracle', 'ncch-bad-seed-accepted', case, 'NCCHSeedError', 'accepted', 'a seed that does not match the verification hash was accepted')
        except NCCHSeedError:
            ctx.stat('bad_seed_refused')
        except Exception as ex:
            ctx.diff('oracle', 'ncch-bad-seed-error', case, 'NCCHSeedError', pyenv.errname(ex), 'wrong error for a bad seed')


def canonical_cases():
    """thorough: the full flag product x canonical ExeFS layouts"""
    layouts = [
        [], [['.code', 0x333]], [['icon', 0x100]], [['.code', 0x400], ['logo', 0x123]], [['.code', 0x200], ['x1', 0x200], ['a', 0x200]],
        [['icon', 0x200], ['.code', 0x1], ['banner', 0x200]], [['.code', 0], ['a', 0x50]], [['a', 0x50], ['.code', 0]],
        [['banner', 0x1FF], ['extra', 0x201], ['icon', 0x10], ['zz', 0x400]], [['.code', 0x600]],
        [[n, 0x200] for n in nc.EXEFS_NAMES], [['icon', 0], ['banner', 0], ['.code', 0x10]],
    ]
    i = 0
    for method in (0, 1, 0x0A, 0x0B):
        for mode in ('normal', 'fixed', 'nocrypto', 'assume'):
            for seed in (False, True):
                if seed and mode in ('fixed', 'nocrypto'):
                    continue
                for lay in layouts:
                    i += 1
                    yield dict(spec=dict(b9seed=i, dseed=i * 7, method=method, mode=mode, uses_seed=seed,
                                         program_id=(0x00040000 << 32) | i, partition_id=i * 0x1000003, extheader=bool(i % 2), logo=None,
                                         plain=None, exefs=lay, slots=list(range(len(lay))), romfs=False,
                                         gaps={}, order=['logo', 'plain', 'exefs', 'romfs']))


def gen_cases(ctx, rng):
    for _ in range(ctx.n(150, 5000)):
        yield dict(spec=nc.gen_spec(rng), start=rng.choice([0, 0, 0x200, 0x37]), lazy=rng.random() < 0.2)


def run_cases(ctx, cases):
    mr = ModelRunner()
    try:
        for case in cases:
            ctx.case(case)
            run_case(ctx, mr, case)
    finally:
        mr.close()
        pyenv.uninstall_fake_boot9()


def run(ctx):
    proof = prove('C03', ['ncch'], ['C03_props'], static_deps=['Proofs/NcchProofs.v', 'Proofs/CtrProofs.v', 'Spec/Scrambler.v'])
    run_cases(ctx, gen_cases(ctx, ctx.rng))
    extra = {}
    if not ctx.quick():
        n0 = ctx.evaluations
        run_cases(ctx, canonical_cases())
        extra['flag_product_cases'] = ctx.evaluations - n0

    def search():
        c2 = Ctx('C03', 'thorough', ctx.seed + 1)
        run_cases(c2, list(canonical_cases()) + [dict(spec=nc.gen_spec(c2.rng)) for _ in range(600)])
        bad = [d for d in c2.diffs if d['kind'] == 'oracle']
        return bad[0] if bad else None

    return finish(ctx, proof,
                  'random NCCHs from an independent builder: crypto method {0,1,0x0A,0x0B} x seeded x fixed zero/system key x no-crypto x '
                  'assume-decrypted, 0-10 ExeFS files in random slots with sizes incl. 0 and multiples of 0x200 (adjacent secondary-key files), '
                  'optional extheader/logo/plain/RomFS in random order with gaps, non-zero start offsets; every section view read at random and '
                  'boundary offsets against the builder plaintext; nested ExeFS/RomFS files; bad seeds; thorough adds the full flag product x 12 layouts',
                  TRUSTED, ASSUME, extra_cov=extra, search=search)


def replay(ctx, path):
    with open(path) as f:
        payload = json.load(f)
    case = {k: v for k, v in payload['case'].items() if k in ('spec', 'start', 'lazy')}
    run_cases(ctx, [case])
    for d in ctx.diffs:
        print('REPRODUCED:', d['what'], 'expected', d['expected'], 'observed', d['observed'])
    return 1 if ctx.diffs else 0
