"""C06 -- RomFS reader reproduces the packed directory tree and file bytes exactly."""
import io
import json
import random

from ..core import Ctx, ModelRunner, prove, finish, hx, unhx
from .. import pyenv, filecontract as fc
from ..builders import romfs as R

TRUSTED = [
    'Coq 8.16.1 kernel (coqc); no axioms; str.lower is an uninterpreted Section variable in the lookup theorems',
    'translator py2gallina.py: the IVFC block-size and level-3 offset expressions (and util.roundup) regenerated each run',
    'hand model coq/Model/Romfs.v of iterate_dir (link walk with visited sets and bounds) and of path lookup, tied by the correspondence run: '
    'extracted walk vs reader._tree_root on valid images and on images with retargeted links / sizes',
    'independent packer harness/builders/romfs.py = ground truth for names, kinds, sizes and file bytes',
]
ASSUME = [
    '"the walk of a packed tree returns that tree" is decided by the oracle (packer vs reader) on generated trees, not by a theorem '
    '(C06_walk_pack of DESIGN section 7 is not proved); the theorems are the fuel bound for all byte strings and the lookup rules',
    'names are valid UTF-16; sibling names distinct (distinct modulo lower-casing in case-insensitive mode)',
    'opened files are SubsectionIO windows (C09)',
]


def tree_of_reader(d):
    """reader._tree_root -> comparable nested structure"""
    if d['type'] == 'dir':
        return ('D', {k: tree_of_reader(v) | {'_name': v['name']} if False else tree_of_reader(v) for k, v in d['contents'].items()},
                {k: v['name'] for k, v in d['contents'].items()})
    return ('F', d['offset'], d['size'])


def tree_of_model(s):
    """parse the driver's dump; later duplicates replace earlier ones, like the reader's dict"""
    pos = 0

    def node():
        nonlocal pos
        kind = s[pos]
        pos += 1
        j = pos
        while s[j] not in '(,':
            j += 1
        name = unhx(s[pos:j]).decode('utf-16le', 'surrogatepass')
        pos = j
        if kind == 'D':
            pos += 1
            kids, names = {}, {}
            while s[pos] != ')':
                n, t = node()
                kids[n] = t
                names[n] = n
                if s[pos] == ';':
                    pos += 1
            pos += 1
            return name, ('D', kids, names)
        pos += 1
        j = s.index(',', pos)
        off = int(s[pos:j], 16)
        pos = j + 1
        j = pos
        while j < len(s) and s[j] not in ';)':
            j += 1
        size = int(s[pos:j], 16)
        pos = j
        return name, ('F', off, size)
    return node()[1]


def gen_case(rng):
    return dict(tseed=rng.randrange(1 << 30), ivfc=rng.random() < 0.5, bs=rng.choice([0, 4, 9, 12, 16, rng.randrange(0, 17)]),
                start=rng.choice([0, 0, 0x10, 0x200, 0x333]), ci=rng.random() < 0.5, shuffle=rng.random() < 0.5,
                hash_tables=rng.choice(['valid', 'zero']), mutate=rng.random() < 0.35, big=rng.random() < 0.1,
                other_bs=[rng.randrange(0, 20), rng.randrange(0, 20)] if rng.random() < 0.6 else None)


def run_case(ctx, mr, case):
    from pyctr.type.romfs import RomFSReader, RomFSFileNotFoundError, RomFSIsADirectoryError
    from fs.errors import ResourceNotFound
    rng = random.Random(case['tseed'])
    if case['big']:
        deep = rng.random() < 0.5
        tree = R.random_tree(rng, max_depth=6 if deep else 1, max_children=2 if deep else 40, max_file=300, unicode_names=True)
    else:
        tree = R.random_tree(rng, max_depth=3, max_children=5, max_file=300, unicode_names=True)
    lv3, info = R.pack_lv3(tree, hash_tables=case['hash_tables'], shuffle=random.Random(case['tseed'] + 1) if case['shuffle'] else None)
    flat = R.flatten(tree)
    mutated = None
    if case['mutate']:
        # correspondence on malformed tables: retarget one link / length field
        cand = [f for f in info['fields'] if not f[2].startswith('hdr.') and not f[2].endswith('.data_offset') and not f[2].endswith('.data_size')
                and not f[2].endswith('.parent') and not f[2].endswith('.hash_next')]
        if cand:
            off, width, desc = rng.choice(cand)
            dm_o, dm_s = info['dirmeta']
            fm_o, fm_s = info['filemeta']
            val = rng.choice([0, 0x18, 0x20, off - dm_o if dm_o <= off < dm_o + dm_s else off - fm_o, dm_s, fm_s, dm_s - 0x18, 0xFFFFFFFF, 0x7FFFFFFF,
                              rng.randrange(0, max(dm_s, fm_s, 1)), 1, 3])
            if rng.random() < 0.25:
                wide = [f for f in info['fields'] if f[2].endswith('.data_offset') or f[2].endswith('.data_size')]
                if wide:
                    off, width, desc = rng.choice(wide)
                    val = rng.choice([1 << 32, (1 << 32) + 5, (1 << 63) + 1, (1 << 64) - 1, rng.getrandbits(64), rng.getrandbits(40)])
            b = bytearray(lv3)
            b[off:off + width] = (val % (1 << (8 * width))).to_bytes(width, 'little')
            lv3 = bytes(b)
            mutated = (desc, val)
            ctx.stat('mutated')
    image = lv3
    if case['ivfc']:
        image, winfo = R.wrap_ivfc(lv3, block_log2=case['bs'])
        if case.get('other_bs'):
            # levels 1 and 2 may use other block sizes than level 3; only level 3's positions the file system
            b = bytearray(image)
            for (o, w, d), v in zip([f for f in winfo['fields'] if f[2] in ('ivfc.lv1.block_log2', 'ivfc.lv2.block_log2')], case['other_bs']):
                b[o:o + w] = v.to_bytes(w, 'little')
            image = bytes(b)
    bio = io.BytesIO(b'\xC3' * case['start'] + image + b'\xC3' * 7)
    bio.seek(case['start'])
    # ---- model vs implementation on the metadata walk (case-sensitive view of the raw tables)
    dm = lv3[info['dirmeta'][0]:info['dirmeta'][0] + info['dirmeta'][1]]
    fm = lv3[info['filemeta'][0]:info['filemeta'][0] + info['filemeta'][1]]
    out = mr.ask(f'romfs {hx(dm)} {hx(fm)}')
    try:
        r = RomFSReader(bio, case_insensitive=False, closefd=False)
        impl = tree_of_reader(r._tree_root)
        ierr = None
        r.close()
    except RecursionError:
        impl, ierr = None, 'RecursionError'
    except Exception as ex:
        impl, ierr = None, pyenv.errname(ex)
    if out.startswith('e:'):
        if ierr != out[2:]:
            ctx.diff('corr', 'romfs-walk-model', dict(case, mutated=mutated), out, ierr or 'a tree', 'RomFS walk: Coq model raises, implementation does not agree')
    else:
        model = tree_of_model(out)
        if ierr is not None:
            ctx.diff('corr', 'romfs-walk-model', dict(case, mutated=mutated), 'a tree', ierr, 'RomFS walk: implementation raises, Coq model returns a tree')
        elif ierr is None and model != impl:
            ctx.diff('corr', 'romfs-walk-model', dict(case, mutated=mutated), str(model)[:200], str(impl)[:200], 'RomFS walk: trees differ')
    if mutated:
        return
    if not case['ivfc'] and rng.random() < 0.3:
        far_file_case(ctx, case, rng, lv3, info, flat)
    # ---- oracle: the packed tree, through the public interface
    bio.seek(case['start'])
    try:
        r = RomFSReader(bio, case_insensitive=case['ci'], closefd=False)
    except Exception as ex:
        ctx.diff('oracle', 'romfs-open-raises', case, 'a reader', pyenv.errname(ex) + ': ' + str(ex)[:80], 'well-formed RomFS rejected')
        return
    try:
        seen = {}
        for path, dirs, files in r.walk.walk('/'):
            seen[path] = ('dir', sorted([d.name for d in dirs] + [f.name for f in files]))
            for f in files:
                seen[(path.rstrip('/') + '/' + f.name)] = ('file', f.size)
        want = {p: (k, v if k == 'dir' else len(v)) for p, (k, v) in flat.items()}
        if seen != want:
            ctx.diff('oracle', 'romfs-walk', case, str(sorted(want))[:200], str(sorted(seen))[:200], 'walk() does not reproduce the packed tree')
        paths = list(flat)
        rng.shuffle(paths)
        for p in paths[:25]:
            kind, val = flat[p]
            variants = [p, '.' + p if p != '/' else '.', p.lstrip('/') or '/']
            # spellings a path library leaves to the file system: repeated and trailing separators, the empty path for the root
            variants += ['/' + p, p.replace('/', '//'), p + '/' if kind == 'dir' else p] + ([''] if p == '/' else [])
            if case['ci']:
                variants += [p.upper(), p.lower(), p.swapcase()]
            for v in variants:
                if case['ci'] and v.lower() != p.lower():
                    continue   # upper-casing is not always undone by lower-casing (e.g. sharp s)
                ctx.stat('lookups')
                try:
                    inf = r.getinfo(v, namespaces=['details'])
                    ok = inf.is_dir == (kind == 'dir') and (kind == 'dir' or inf.size == len(val)) and inf.name == (p.rsplit('/', 1)[1] if p != '/' else 'ROOT')
                    if not ok:
                        ctx.diff('oracle', 'romfs-getinfo', dict(case, path=v), (kind, p), (inf.is_dir, inf.name), f'getinfo({v!r}) reports the wrong entry')
                except Exception as ex:
                    ctx.diff('oracle', 'romfs-getinfo-raises', dict(case, path=v), 'info', pyenv.errname(ex), f'getinfo({v!r}) raised')
                    continue
                if kind == 'dir':
                    got = sorted(r.listdir(v))
                    if got != val:
                        ctx.diff('oracle', 'romfs-listdir', dict(case, path=v), val[:10], got[:10], f'listdir({v!r}) differs')
                    try:
                        r.openbin(v)
                        ctx.diff('oracle', 'romfs-open-dir', dict(case, path=v), 'RomFSIsADirectoryError', 'opened', 'opening a directory did not raise')
                    except RomFSIsADirectoryError:
                        pass
                    except Exception as ex:
                        ctx.diff('oracle', 'romfs-open-dir', dict(case, path=v), 'RomFSIsADirectoryError', pyenv.errname(ex), 'wrong error opening a directory')
                else:
                    try:
                        f = r.openbin(v)
                    except Exception as ex:
                        ctx.diff('oracle', 'romfs-open-raises-file', dict(case, path=v), 'a file', pyenv.errname(ex), f'openbin({v!r}) raised')
                        continue

                    def fail(sig, what, expected, observed, v=v):
                        ctx.diff('oracle', 'romfs-file:' + sig, dict(case, path=v), str(expected)[:80], str(observed)[:80], f'RomFS file {v!r}: {what}')
                    c = fc.Contract(f, val, fail, writable=False)
                    c.run(fc.gen_ops(rng, len(val), 3, writable=False))
            if not case['ci'] and p != '/' and p.swapcase() != p and p.swapcase() not in flat:
                try:
                    r.getinfo(p.swapcase())
                    ctx.diff('oracle', 'romfs-case-sensitive', dict(case, path=p.swapcase()), 'not found', 'found', 'case-sensitive mode resolved a case variant')
                except RomFSFileNotFoundError:
                    pass
        # the Coq model of the path lookup (Model/RomfsPath.v: prefix, split, empty components skipped) on the same tables, for
        # spellings of existing and of missing paths; case-sensitive mode only (the model has no str.lower)
        if not case['ci']:
            for p in paths[:6]:
                comps = [c for c in p.split('/') if c]
                if comps and comps[0] == '.':
                    continue
                spelled = '/' * rng.choice([0, 1, 2, 3]) + ''.join(c + '/' * rng.choice([1, 1, 2, 3]) for c in comps[:-1]) + (comps[-1] + '/' * rng.choice([0, 0, 1, 2]) if comps else '')
                if rng.random() < 0.25 and comps:
                    spelled = spelled.rstrip('/') + '//nothing-here'
                units = ','.join('%x' % u for u in __import__('struct').unpack('<%dH' % (len(spelled.encode('utf-16le')) // 2), spelled.encode('utf-16le'))) or '-'
                out = mr.ask(f'romfspath {hx(dm)} {hx(fm)} {units}')
                try:
                    raw = r._get_raw_info(spelled)
                    impl = ('D' + hx(raw['name'].encode('utf-16le')) + ',%d' % len(raw['contents'])) if raw['type'] == 'dir' else \
                           ('F' + hx(raw['name'].encode('utf-16le')) + ',%s,%s' % (__import__('harness.core', fromlist=['zhex']).zhex(raw['offset']), __import__('harness.core', fromlist=['zhex']).zhex(raw['size'])))
                    if raw is r._tree_root:
                        impl = 'D' + hx(b'') + ',%d' % len(raw['contents'])
                except Exception as ex:
                    impl = 'e:' + pyenv.errname(ex)
                ctx.stat('path_model_lookups')
                if out != impl:
                    ctx.diff('corr', 'romfs-path-model', dict(case, path=spelled), out[:80], impl[:80], f'path lookup of {spelled!r}: Coq model and implementation differ')
        files_ = [p for p, (k, _) in flat.items() if k == 'file']
        for t in range(6):
            base = rng.choice([p for p, (k, _) in flat.items() if k == 'dir'])
            missing = base.rstrip('/') + rng.choice(['/', '/', '//']) + 'nope' + str(rng.randrange(1000))
            if t >= 4:
                if not files_:
                    continue
                # a path that continues below a FILE names nothing either
                missing = rng.choice(files_) + rng.choice(['/', '//']) + rng.choice(['x', 'nope', '0'])
            for call in (r.getinfo, r.openbin, r.listdir):
                try:
                    call(missing)
                    ctx.diff('oracle', 'romfs-missing', dict(case, path=missing), 'RomFSFileNotFoundError', 'found', 'a path that names nothing was found')
                except RomFSFileNotFoundError:
                    pass
                except Exception as ex:
                    ctx.diff('oracle', 'romfs-missing', dict(case, path=missing), 'RomFSFileNotFoundError', pyenv.errname(ex), 'wrong error for a missing path')
        if case['ivfc'] and r.lv3_offset != -(-(0x60 + 0x20) // (1 << case['bs'])) * (1 << case['bs']):
            ctx.diff('oracle', 'romfs-ivfc-offset', case, 'roundup(0x60+mhs, 1<<bs)', r.lv3_offset, 'level-3 offset of the IVFC-wrapped image')
    finally:
        r.close()


class FarFile(io.RawIOBase):
    """a read-only file made of a few byte regions far apart (zeros in between): a RomFS larger than 4 GiB without the memory"""

    def __init__(self, regions, size):
        super().__init__()
        self.regions, self.size, self.pos = regions, size, 0

    def readable(self):
        return True

    def seekable(self):
        return True

    def tell(self):
        return self.pos

    def seek(self, off, whence=0):
        self.pos = max(0, off if whence == 0 else self.pos + off if whence == 1 else self.size + off)
        return self.pos

    def read(self, n=-1):
        if n is None or n < 0:
            n = max(0, self.size - self.pos)
        n = max(0, min(n, self.size - self.pos))
        if n > (1 << 24):
            raise MemoryError('FarFile: read of %d bytes' % n)
        out = bytearray(n)
        for start, data in self.regions:
            lo, hi = max(start, self.pos), min(start + len(data), self.pos + n)
            if lo < hi:
                out[lo - self.pos:hi - self.pos] = data[lo - start:hi - start]
        self.pos += n
        return bytes(out)


def far_file_case(ctx, case, rng, lv3, info, flat):
    """the data offset of a file entry is a 64-bit field: move one file's data beyond 4 GiB (its old place is overwritten)"""
    from pyctr.type.romfs import RomFSReader
    files = [(p, v) for p, (k, v) in flat.items() if k == 'file' and len(v) > 0]
    if not files:
        return
    p, val = rng.choice(files)
    foff = next(o for (o, w, d) in info['fields'] if d == f'file[{p}].data_offset')
    old = int.from_bytes(lv3[foff:foff + 8], 'little')
    new = rng.choice([1, 2, 0x10, 0xFFFF]) * (1 << 32) + rng.choice([old, 0, 0x10, old + 0x30])
    b = bytearray(lv3)
    b[foff:foff + 8] = new.to_bytes(8, 'little')
    d0 = info['data_offset']
    b[d0 + old:d0 + old + len(val)] = bytes(x ^ 0xA5 for x in val)
    start = case['start']
    far = FarFile([(0, b'\xC3' * start + bytes(b)), (start + d0 + new, val)], start + d0 + new + len(val))
    far.seek(start)
    ctx.stat('far_files')
    try:
        r = RomFSReader(far, case_insensitive=False, closefd=False)
        try:
            got = r.openbin(p).read()
            size = r.getinfo(p, namespaces=['details']).size
        finally:
            r.close()
    except Exception as ex:
        ctx.diff('oracle', 'romfs-far-file-raises', dict(case, path=p, data_offset=new), 'file bytes', pyenv.errname(ex) + ': ' + str(ex)[:60],
                 'a file whose data lies beyond 4 GiB could not be read')
        return
    if got != val or size != len(val):
        ctx.diff('oracle', 'romfs-far-file', dict(case, path=p, data_offset=new), val.hex()[:40], got.hex()[:40],
                 f'file {p!r} with data offset {new:#x} does not read back its bytes')


def deep_case(ctx, case):
    """a chain of `depth` nested directories with a file at the bottom: "any nesting depth" includes depths beyond what the
    interpreter allows a recursive function (the packer and the comparison below run with a raised limit, the reader does not)"""
    import sys
    from pyctr.type.romfs import RomFSReader
    depth = case['deep']
    limit = sys.getrecursionlimit()
    sys.setrecursionlimit(max(limit, 50 * depth + 1000))
    try:
        tree = {'f.bin': b'bottom'}
        for i in range(depth):
            tree = {'d%d' % (i % 7): tree, 'g': b'x' * (i % 3)} if i % 5 == 0 else {'d%d' % (i % 7): tree}
        lv3, info = R.pack_lv3(tree)
    finally:
        sys.setrecursionlimit(limit)
    ctx.stat('deep_chains')
    path = '/' + '/'.join('d%d' % (i % 7) for i in reversed(range(depth))) + '/f.bin'
    try:
        r = RomFSReader(io.BytesIO(lv3), case_insensitive=case['ci'])
        got = r.openbin(path).read()
        size = r.getinfo(path, namespaces=['details']).size
        n_dirs = sum(1 for _ in r.walk.dirs('/'))
        r.close()
        if got != b'bottom' or size != 6 or n_dirs != depth:
            ctx.diff('oracle', 'romfs-deep', case, ('bottom', 6, depth), (got, size, n_dirs), f'a chain of {depth} nested directories is not reproduced')
    except RecursionError:
        ctx.diff('oracle', 'romfs-deep:RecursionError', case, 'the packed tree', 'RecursionError',
                 f'a well-formed RomFS with {depth} nested directories cannot be opened: RecursionError (the directory walk recurses once per level)')
    except Exception as ex:
        ctx.diff('oracle', 'romfs-deep:' + pyenv.errname(ex), case, 'the packed tree', pyenv.errname(ex), f'a chain of {depth} nested directories: {pyenv.errname(ex)}')


def exhaustive_small():
    """all trees with <= 4 nodes over a tiny alphabet x both header forms x both case modes"""
    def trees(n):
        # n nodes to place below a directory: list of (name, subtree)
        if n == 0:
            yield {}
            return
        names = ['a', 'B', 'c', 'dd']
        for k in range(1, n + 1):          # first child uses k nodes (itself + descendants)
            for rest in trees(n - k):
                nm = names[len(rest)]
                if k == 1:
                    yield {nm: b'x' * len(rest), **rest}
                    yield {nm: b'', **rest}
                for sub in trees(k - 1):
                    yield {nm: sub, **rest}
    seen = set()
    for n in range(0, 4):
        for t in trees(n):
            key = repr(t)
            if key in seen:
                continue
            seen.add(key)
            yield t


def run_cases(ctx, cases):
    mr = ModelRunner()
    try:
        for case in cases:
            ctx.case(case)
            if case.get('deep'):
                deep_case(ctx, case)
            else:
                run_case(ctx, mr, case)
    finally:
        mr.close()


def run(ctx):
    proof = prove('C06', ['util', 'romfs'], ['C06_props'], static_deps=['Proofs/RomfsProofs.v', 'Proofs/RomfsRepProofs.v', 'Proofs/RomfsPathProofs.v'])
    run_cases(ctx, (gen_case(ctx.rng) for _ in range(ctx.n(120, 4000))))
    run_cases(ctx, [dict(deep=d, ci=bool(d % 2)) for d in ([40, 333, 1200, 2501] if ctx.quick() else [40, 333, 999, 1200, 2501, 5000, 20001])])

    def search():
        c2 = Ctx('C06', 'thorough', ctx.seed + 1)
        run_cases(c2, (gen_case(c2.rng) for _ in range(800)))
        bad = [d for d in c2.diffs if d['kind'] == 'oracle']
        return bad[0] if bad else None

    return finish(ctx, proof,
                  'random trees (depth 0-6, up to 40 siblings, empty dirs/files, non-ASCII and non-BMP names, long names), bare and IVFC-wrapped '
                  '(block exponents 0-16), start offsets 0 / non-zero, shuffled entry placement, valid and blank hash tables, both case modes; '
                  'walk/listdir/getinfo/openbin against the packer ground truth, case variants, "./" and bare prefixes, missing paths, directories '
                  'opened as files; a third of the images have one link/length field retargeted and are used for model-vs-reader correspondence',
                  TRUSTED, ASSUME, search=search)


def replay(ctx, path):
    with open(path) as f:
        payload = json.load(f)
    case = {k: v for k, v in payload['case'].items() if k not in ('path', 'mutated')}
    run_cases(ctx, [case])
    for d in ctx.diffs:
        print('REPRODUCED:', d['what'], 'expected', d['expected'], 'observed', d['observed'])
    return 1 if ctx.diffs else 0
