"""C12 -- CTR-wrapper writes keep ciphertext file and plaintext view consistent."""
from . import c01

TRUSTED = c01.TRUSTED
ASSUME = c01.ASSUME + [
    'writes that begin beyond the end of a plain underlying file are excluded from the positive theorems (C12_gap_extension_refuted; KNOWN_FINDINGS gap-extension)',
]


def run(ctx):
    return c01.run_generic(ctx, 'C12', True, ['CTR_bridge', 'C12_props'],
                           'seeded histories (1-12 ops) of seek/read/write/tell, ~40% of writes directly after a read or write without a seek, '
                           'writes unaligned / block-straddling / appending / truncated by the window, both modes, plain and windowed underlying; '
                           'after every history the underlying bytes are compared with the encryption of the logical plaintext',
                           TRUSTED, ASSUME)


def replay(ctx, path):
    return c01.replay(ctx, path)
