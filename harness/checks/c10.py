"""C10 -- CCI, CDN and SD-title containers expose exactly the NCCHs packed in them."""
import io
import json
import os
import random
import shutil
import tempfile

from ..core import Ctx, ModelRunner, prove, finish, zhex, hx
from .. import pyenv, ncchcommon as nc, sdcommon as sd
from ..builders import pack as P

TRUSTED = [
    'Coq 8.16.1 kernel (coqc); no axioms',
    'hand model coq/Model/Ncsd.v of the NCSD partition-table loop of CCIReader.__init__ and of the CDN content-file resolution rule; '
    'the table model is tied by the correspondence run (extracted ncsd_partitions vs reader.sections)',
    'independent builders harness/builders/pack.py (CCI, CDN directory, SD title directory, ticket, TMD), ncch.py (contents) and '
    'harness/sdcommon.py (SD path counter and key) = ground truth',
    'content views are windows (C09), CBC wrappers (C02) or CTR wrappers with the path counter (C14/C01); nested readers are C03',
]
ASSUME = [
    'PyFilesystem2 (OSFS, MemoryFS, SubFS) is used as is; only its open/isfile/opendir/listdir contract matters',
    'the metamorphic comparison (same NCCHs packaged four ways expose the same bytes and nested files) is sampled',
]


def gen_case(rng):
    n = rng.choice([1, 2, 3, 4])
    b9seed = rng.randrange(1 << 20)
    contents = []
    for i in range(n):
        spec = nc.gen_spec(rng, small=True)
        spec['b9seed'] = b9seed
        if spec['mode'] == 'assume':
            spec['mode'] = 'normal'
        contents.append(dict(id=rng.getrandbits(32), spec=spec))
    return dict(b9seed=b9seed, contents=contents, pack=rng.choice(['cci', 'cci', 'cdn', 'cdn', 'sd', 'sdenc']), seed=rng.randrange(1 << 30),
                backend=rng.choice(['mem', 'os']))


def check_nested(ctx, case, what, reader_contents, built, keyfn):
    for key, (image, info, kwargs) in built.items():
        n = reader_contents.get(keyfn(key))
        if n is None:
            ctx.diff('oracle', f'{what}-nested-missing', dict(case, content=key), 'a nested reader', None, f'{what}: no nested reader for content {key}')
            continue
        for name in nc.SEC_NAMES:
            if name in info['plain'] and name != 'header':
                try:
                    got = n.open_raw_section(nc.sec_enum(name)).read()
                except Exception as ex:
                    got = pyenv.errname(ex)
                if got != info['plain'][name]:
                    ctx.diff('oracle', f'{what}-nested-section', dict(case, content=key, section=name), 'section plaintext', str(got)[:40],
                             f'{what}: nested section {name} of content {key} differs from the packed NCCH')
        ctx.stat('nested_readers')


def run_case(ctx, mr, case):
    from pyctr.crypto import engine as E, seeddb
    rng = random.Random(case['seed'])
    pyenv.install_fake_boot9(case['b9seed'])
    blob = E._b9_keyblob['retail']
    ckx = int.from_bytes(blob[0x1C0:0x1D0], 'big')
    seeddb._seeds.clear()
    seeddb._loaded_from_default_paths = True
    images = []
    for c in case['contents']:
        image, info, kwargs = nc.build(c['spec'])
        if kwargs.get('seed'):
            seeddb.add_seed(c['spec']['program_id'], kwargs['seed'])
        images.append((image, info, kwargs))
    ctx.stat('pack_' + case['pack'])
    tmpdir = None
    try:
        if case['pack'] == 'cci':
            from pyctr.type.cci import CCIReader, CCISection, InvalidCCIError
            idxs = sorted(rng.sample(range(8), len(images)))
            parts = {i: images[k][0] for k, i in enumerate(idxs)}
            gaps = {i: rng.choice([0, 1, 5]) for i in idxs}
            order = list(idxs)
            if rng.random() < 0.4:
                rng.shuffle(order)        # file order differs from table order
            cci, cinfo = P.build_cci(parts, gaps=gaps, media_id=rng.getrandbits(64) | 1, order=order,
                                     first_unit=rng.choice([0x20, 0x20, 0xB, 0xC, 0x1F, 0x21, 0x100]))
            start = rng.choice([0, 0, 0x200])
            bio = io.BytesIO(b'\x11' * start + cci)
            bio.seek(start)
            try:
                r = CCIReader(bio)
            except Exception as ex:
                ctx.diff('oracle', 'cci-open-raises', case, 'a reader', pyenv.errname(ex) + ': ' + str(ex)[:80], 'well-formed CCI rejected')
                return
            try:
                listed = sorted(int(s) for s in r.sections if int(s) >= 0)
                if listed != idxs:
                    ctx.diff('oracle', 'cci-partitions', case, idxs, listed, 'listed partitions differ from the NCSD table')
                for i in idxs:
                    got = r.open_raw_section(CCISection(i)).read()
                    if got != cinfo['padded'][i]:
                        ctx.diff('oracle', 'cci-raw', dict(case, content=i), 'partition bytes', 'different', f'CCI partition {i} raw bytes differ')
                check_nested(ctx, case, 'cci', {int(k): v for k, v in r.contents.items()}, {i: images[k] for k, i in enumerate(idxs)}, lambda k: k)
                # model of the table loop
                hdr = cci[0x100:0x200]
                out = mr.ask('ncsd ' + hx(hdr))
                model = sorted(tuple(int(x, 16) for x in t.split(',')) for t in out.split(' ')) if out and not out.startswith('e:') else out
                impl = sorted((int(s), reg.offset, reg.size) for s, reg in r.sections.items() if int(s) >= 0)
                if model != impl:
                    ctx.diff('corr', 'ncsd-model', case, str(model)[:200], str(impl)[:200], 'NCSD table: Coq model and reader differ')
            finally:
                r.close()
            for kind in ('media', 'magic'):
                bad = bytearray(cci)
                if kind == 'media':
                    bad[0x108:0x110] = bytes(8)
                else:
                    bad[0x100 + rng.randrange(4)] ^= 0x20
                try:
                    CCIReader(io.BytesIO(bytes(bad)), load_contents=False)
                    ctx.diff('oracle', 'cci-reject-' + kind, case, 'InvalidCCIError', 'accepted', f'CCI with bad {kind} accepted')
                except InvalidCCIError:
                    ctx.stat('cci_rejects')
                except Exception as ex:
                    ctx.diff('oracle', 'cci-reject-' + kind, case, 'InvalidCCIError', pyenv.errname(ex), f'wrong error for bad {kind}')
            return
        # directory layouts
        from fs.memoryfs import MemoryFS
        from fs.osfs import OSFS
        tid = (0x00040000 << 32) | rng.getrandbits(32)
        titlekey = pyenv.rbytes(rng, 16)
        idxs = sorted(rng.sample(range(0, 12), len(images)))
        conts = []
        for k, i in enumerate(idxs):
            data = images[k][0] + b'\0' * ((-len(images[k][0])) % 16)
            conts.append(dict(id=case['contents'][k]['id'], index=i, data=data, encrypted=rng.random() < 0.7))
        present = set(i for i in idxs if rng.random() < 0.8) or {idxs[0]}
        if case['backend'] == 'os':
            tmpdir = tempfile.mkdtemp(prefix='pyctr_c10_', dir='/dev/shm' if os.path.isdir('/dev/shm') else None)
            fsobj = OSFS(tmpdir)
        else:
            fsobj = MemoryFS()
        built = {i: images[k] for k, i in enumerate(idxs) if i in present}
        if case['pack'] == 'cdn':
            from pyctr.type.cdn import CDNReader
            mode = rng.choice(['ticket', 'enc', 'dec'])
            cki = rng.randrange(6)
            upper = set(c['id'] for c in conts if rng.random() < 0.4)
            ctx.stat('cdn_upper_names', len(upper))
            sub = rng.choice(['', 'a/b'])
            info = P.write_cdn_dir(fsobj, conts, title_id=tid, titlekey=titlekey, common_key_x=ckx, common_key_index=cki, present=present,
                                   upper_case_names=upper, with_ticket=(mode == 'ticket'), subdir=sub)
            # a DIRECTORY that carries the id of a missing content file (left behind by an unpacking tool), lower or upper case: the content
            # is missing all the same and the others are not affected (no random draw: the older cases stay as they were)
            for c in conts:
                if c['index'] not in present and (c['index'] + len(conts)) % 2 == 0:
                    nm = '%08x' % c['id']
                    fsobj.makedirs((sub + '/' if sub else '') + (nm.upper() if c['index'] % 3 == 0 else nm), recreate=True)
                    ctx.stat('cdn_directory_named_like_a_missing_content')
            kw = {}
            if mode == 'enc':
                kw = dict(titlekey=info['enc_titlekey'], common_key_index=cki)
            elif mode == 'dec':
                kw = dict(decrypted_titlekey=titlekey)
            ctx.stat('cdn_' + mode)
            tmdpath = (sub + '/' if sub else '') + 'tmd'
            if case['backend'] == 'os' and not sub and rng.random() < 0.4:
                # the same directory reached through a directory whose NAME contains a '$' (and an environment variable of that name
                # exists, pointing elsewhere): an OS path is taken as it is spelled
                os.makedirs(os.path.join(tmpdir, 'elsewhere'), exist_ok=True)
                os.environ['PYCTR_C10_DIR'] = 'elsewhere'
                odd = os.path.join(tmpdir, '$PYCTR_C10_DIR')
                os.makedirs(odd, exist_ok=True)
                for name in os.listdir(tmpdir):
                    if os.path.isfile(os.path.join(tmpdir, name)):
                        shutil.copy(os.path.join(tmpdir, name), os.path.join(odd, name))
                        os.remove(os.path.join(tmpdir, name))
                ctx.stat('cdn_dollar_directory')
                try:
                    r = CDNReader(os.path.join(odd, 'tmd'), **kw)
                except Exception as ex:
                    ctx.diff('oracle', 'cdn-open-raises', dict(case, directory='$PYCTR_C10_DIR'), 'a reader', pyenv.errname(ex) + ': ' + str(ex)[:80],
                             'CDN directory whose name contains a "$" (with an environment variable of that name set) not opened as spelled')
                    return
                finally:
                    os.environ.pop('PYCTR_C10_DIR', None)
                what = 'cdn'
                mode_done = True
            else:
                mode_done = False
            try:
                if mode_done:
                    pass
                elif case['backend'] == 'os' and rng.random() < 0.5:
                    r = CDNReader(os.path.join(tmpdir, tmdpath), **kw)
                else:
                    r = CDNReader(tmdpath, fs=fsobj, **kw)
            except Exception as ex:
                ctx.diff('oracle', 'cdn-open-raises', case, 'a reader', pyenv.errname(ex) + ': ' + str(ex)[:80], 'well-formed CDN directory rejected')
                return
            what = 'cdn'
            if r._crypto.key_normal.get(0x40) != titlekey:
                ctx.diff('oracle', 'cdn-titlekey', dict(case, mode=mode), titlekey.hex(), (r._crypto.key_normal.get(0x40) or b'').hex(), f'title key differs (key supplied as {mode})')
        else:
            from pyctr.type.sdtitle import SDTitleReader
            enc = case['pack'] == 'sdenc'
            key16 = pyenv.rbytes(rng, 16)
            if enc:
                from pyctr.type.sdfs import SDRoot
                nk = sd.sd_normal_key(sd.sd_keyx(blob), key16)
                id0, id1 = sd.id0_of(key16).hex(), pyenv.rbytes(rng, 16).hex()
                rel = f'title/{tid >> 32:08x}/{tid & 0xFFFFFFFF:08x}/content'
                fsobj.makedirs(f'{id0}/{id1}/{rel}')
                sub = fsobj.opendir(f'{id0}/{id1}')
                # the tmd of an installed title is named by a hexadecimal number (00000000.tmd after the first install, counting up
                # with updates); while an update is being downloaded a second tmd with the next number sits beside the active one
                tmd_no = rng.choice([0, 0, 1, 9, 0xa, 0x1f, 0xabc, rng.getrandbits(24)])
                tmd_name = '%08x.tmd' % tmd_no
                P.write_sdtitle_dir(sub, conts, title_id=tid, tmd_name=tmd_name, present=present, subdir=rel,
                                    sd_encrypt=lambda p, data: sd.sd_crypt(nk, '/' + p.lstrip('/'), data))
                if rng.random() < 0.4:
                    pending = '%08x.tmd' % (tmd_no + rng.choice([1, 2, 7]))
                    sub.writebytes(rel + '/' + pending, sd.sd_crypt(nk, '/' + rel + '/' + pending, pyenv.rbytes(rng, 0x300)))
                    ctx.stat('sdenc_pending_tmd')
                # a second ID1 directory (another SD card's data under the same console id), sorting before or after the real one, with
                # the title directory present but empty: the title must be taken from the ID1 that was asked for
                decoy = None
                if rng.random() < 0.6:
                    decoy = rng.choice(['0' * 32, 'f' * 32])
                    if decoy != id1:
                        fsobj.makedirs(f'{id0}/{decoy}/{rel}')
                    else:
                        decoy = None
                try:
                    root = SDRoot(fsobj, sd_key=sd.movable_sed(rng, key16, rng.choice([0x10, 0x120, 0x140])))
                    way = case.get('way') or rng.choice(['title', 'title', 'rel', 'dot', 'abs'])
                    ctx.stat('sdenc_open_' + way)
                    if way == 'title':
                        r = root.open_title('%016X' % tid, id1=id1) if decoy else root.open_title('%016X' % tid)
                    else:
                        # the ID1 file system itself, the tmd named relative to it in the spellings a path may have
                        spelled = {'rel': '', 'dot': './', 'abs': '/'}[way] + rel + '/' + tmd_name
                        r = SDTitleReader(spelled, fs=root.open_id1(id1))
                except Exception as ex:
                    ctx.diff('oracle', 'sdenc-open-raises', case, 'a reader', pyenv.errname(ex) + ': ' + str(ex)[:80], 'SD-encrypted title rejected')
                    return
                what = 'sdenc'
            else:
                P.write_sdtitle_dir(fsobj, conts, title_id=tid, present=present, subdir='')
                how = case.get('how') or (rng.choice(['fs', 'path', 'symlink']) if case['backend'] == 'os' else 'fs')
                ctx.stat('sd_open_' + how)
                if how == 'symlink':
                    # the tmd entry of the title directory is a link to a tmd kept elsewhere: the contents are looked up beside the
                    # path that was given, not beside the link's target
                    os.makedirs(os.path.join(tmpdir, 'elsewhere'))
                    os.rename(os.path.join(tmpdir, '00000000.tmd'), os.path.join(tmpdir, 'elsewhere', 'real.tmd'))
                    os.symlink(os.path.join('elsewhere', 'real.tmd'), os.path.join(tmpdir, '00000000.tmd'))
                try:
                    r = SDTitleReader('00000000.tmd', fs=fsobj) if how == 'fs' else SDTitleReader(os.path.join(tmpdir, '00000000.tmd'))
                except Exception as ex:
                    ctx.diff('oracle', 'sd-open-raises', case, 'a reader', pyenv.errname(ex) + ': ' + str(ex)[:80], 'SD title directory rejected')
                    return
                what = 'sd'
        try:
            listed = sorted(s for s in r.available_sections if isinstance(s, int) and s >= 0)
            if listed != sorted(present) or [c.cindex for c in r.content_info] != [i for i in idxs if i in present]:
                ctx.diff('oracle', what + '-listing', case, sorted(present), listed, f'{what}: listed contents differ from the files present')
            for c in conts:
                if c['index'] in present:
                    got = r.open_raw_section(c['index']).read()
                    if got != c['data']:
                        ctx.diff('oracle', what + '-raw', dict(case, content=c['index']), 'content bytes', 'different', f'{what}: raw bytes of content {c["index"]} differ')
            check_nested(ctx, case, what, dict(r.contents), built, lambda k: k)
        finally:
            r.close()
    finally:
        if tmpdir:
            shutil.rmtree(tmpdir, ignore_errors=True)


def run_cases(ctx, cases):
    mr = ModelRunner()
    try:
        for case in cases:
            ctx.case(case)
            run_case(ctx, mr, case)
    finally:
        mr.close()
        pyenv.uninstall_fake_boot9()


def run(ctx):
    proof = prove('C10', [], ['C10_props'], static_deps=['Proofs/NcsdProofs.v'])
    cases = [gen_case(ctx.rng) for _ in range(ctx.n(60, 1500))]
    # directed: every way of opening an installed title from an OS directory
    for how in ('path', 'symlink'):
        cases.append(dict(gen_case(ctx.rng), pack='sd', backend='os', how=how))
    run_cases(ctx, cases)

    def search():
        c2 = Ctx('C10', 'thorough', ctx.seed + 1)
        run_cases(c2, (gen_case(c2.rng) for _ in range(400)))
        bad = [d for d in c2.diffs if d['kind'] == 'oracle']
        return bad[0] if bad else None

    return finish(ctx, proof,
                  'one set of 1-4 small NCCHs (C03 builder) per case, packaged as a CCI (random partition slots, gaps, start offset), a CDN directory '
                  '(ticket / encrypted key + index / decrypted key; lower/upper-case content names; sub-directories; MemoryFS and OS directories), '
                  'a plain SD title directory or an SD-encrypted title opened through SDRoot; random presence subsets; listing, raw bytes and nested '
                  'sections compared with what was packed; CCI rejects (zero media id, wrong magic)',
                  TRUSTED, ASSUME, search=search)


def replay(ctx, path):
    with open(path) as f:
        payload = json.load(f)
    case = {k: v for k, v in payload['case'].items() if k not in ('content', 'section', 'mode')}
    run_cases(ctx, [case])
    for d in ctx.diffs:
        print('REPRODUCED:', d['what'], 'expected', d['expected'], 'observed', d['observed'])
    return 1 if ctx.diffs else 0
