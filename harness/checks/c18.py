"""C18 -- save containers: writes keep data, hash tree and header mutually consistent."""
import hashlib
import io
import json
import random

from ..core import Ctx, ModelRunner, prove, finish, hx, unhx, zhex
from .. import pyenv, filecontract as fc, savecommon as sc
from ..builders import save as SV

TRUSTED = [
    'Coq 8.16.1 kernel (coqc); no axioms; SHA-256 uninterpreted',
    'hand model coq/Model/IvfcWrite.v of IVFCHashTree.write_data (write, re-hash of the touched blocks, recursion into the level above, '
    'master hashes), tied by the correspondence run (extracted model vs IVFCHashTree on hand-made trees)',
    'independent builder / verifier harness/builders/save.py; CMAC recomputed with PyCryptodome',
]
ASSUME = [
    'DPFS copy selection under writes (write_data of DPFSLevel3) and the descriptor / header / CMAC update chain are decided by the oracle '
    '(independent verifier after every history, re-open with a fresh reader), not by a theorem',
]


def cmac_cases(rng):
    from pyctr.type.save import cmac as C
    tid = pyenv.rbytes(rng, 8)
    return [
        ('none', None, None),
        ('SIGN', lambda: C.CTR_SIGN(tid), lambda hdr: [b'CTR-SIGN', tid, hashlib.sha256(b'CTR-SAV0' + hdr).digest()]),
        ('SYS0', lambda: C.CTR_SYS0(tid), lambda hdr: [b'CTR-SYS0', tid, hdr]),
        ('NOR0', lambda: C.CTR_NOR0(), lambda hdr: [b'CTR-NOR0', hashlib.sha256(b'CTR-SAV0' + hdr).digest()]),
        ('EXT0', lambda: C.CTR_EXT0(tid, True, 3, 4), lambda hdr: [b'CTR-EXT0', tid, (1).to_bytes(4, 'little'), (3).to_bytes(4, 'little'), (4).to_bytes(4, 'little'), hdr]),
    ]


SLOT_OF = {'SIGN': 0x30, 'SYS0': 0x30, 'NOR0': 0x33, 'EXT0': 0x30}


def run_case(ctx, mr, case):
    from pyctr.type.save.partdesc.ivfc import IVFCReadOnlyError
    from Cryptodome.Cipher import AES
    from Cryptodome.Hash import CMAC
    geom = case['geom']
    img, info, payloads = sc.build(geom)
    rng = random.Random(geom['seed'] ^ 0x1818)
    schemes = cmac_cases(rng)
    name, mk, parts = schemes[case['scheme'] % len(schemes)]
    if geom['kind'] == 'diff' and name in ('SIGN', 'NOR0'):
        name, mk, parts = schemes[0]          # those two digest a DISA header
    if geom['kind'] != 'diff' and name == 'EXT0':
        name, mk, parts = schemes[2]
    ctx.stat('cmac_' + name)
    ctx.stat('kind_' + geom['kind'])
    # the DPFS level below the hash tree has a Coq model of its write path (Model/DpfsWrite.v): same writes on the raw two-copy area
    c0, bio0 = sc.open_container(img, geom['kind'])
    for pi, ip in enumerate(info['partitions']):
        (o1, s1), (o2, s2), (o3, s3) = ip['dpfs_areas']
        bs3 = ip['dpfs_block_sizes'][2]
        f3 = c0.partitions[pi].dpfs_lv3_file
        ws, counts = [], []
        for _ in range(rng.randrange(1, 5)):
            pos = rng.choice([0, 1, bs3 - 1, bs3, rng.randrange(s3 + 1), max(0, s3 - 2), s3, s3 + 5])
            data = pyenv.rbytes(rng, rng.choice([1, 2, bs3 - 1, bs3, bs3 + 1, 2 * bs3 + 3, rng.randrange(1, s3 + 9)]))
            f3.seek(pos)
            at = f3.tell()
            counts.append(zhex(f3.write(data)))
            ws.append((at, data))
        line = 'dpfswrite %s %x %s %s %s %s %s ' % (hx(img[o1:o1 + 2 * s1]), ip['dpfs_selector'], hx(img[o2:o2 + 2 * s2]), zhex(ip['dpfs_block_sizes'][1]),
                                                  hx(img[o3:o3 + 2 * s3]), zhex(s3), zhex(bs3)) + ' '.join('%s,%s' % (zhex(p_), hx(d_)) for p_, d_ in ws)
        mcounts, marea = mr.ask(line).split(' | ')
        after = bio0.getvalue()
        if mcounts.split(' ') != counts or unhx(marea) != after[o3:o3 + 2 * s3]:
            ctx.diff('corr', 'dpfs-write-model', dict(case, part=pi, writes=[(p_, d_.hex()) for p_, d_ in ws]), mcounts, ' '.join(counts),
                     'DPFS level-3 write: Coq model and implementation differ (returned counts or bytes of the two-copy area)')
        if after[:o3] != img[:o3] or after[o3 + 2 * s3:] != img[o3 + 2 * s3:]:
            ctx.diff('oracle', 'dpfs-write-frame', dict(case, part=pi), 'unchanged', 'changed', 'a write through the DPFS level-3 file changed bytes outside its two-copy area')
        ctx.stat('dpfs_write_model', len(ws))
        img0 = after          # the next partition is compared against what this one left
        img = after
    c0.close()
    img, info, payloads = sc.build(geom)
    # read-only container: the write is refused and nothing changes
    c, bio = sc.open_container(img, geom['kind'], writable=False)
    r = sc.lv4_reader(c, 0)
    at = rng.randrange(len(payloads[0]))
    r.seek(at)
    try:
        r.write(pyenv.rbytes(rng, rng.choice([1, 1, 16, 200])))
        ctx.diff('oracle', 'readonly-write-accepted', case, 'IVFCReadOnlyError', 'accepted', 'write on a read-only container was accepted')
    except IVFCReadOnlyError:
        ctx.stat('readonly_refused')
    except Exception as ex:
        ctx.diff('oracle', 'readonly-error', case, 'IVFCReadOnlyError', pyenv.errname(ex), 'wrong error for a write on a read-only container')
    if bio.getvalue() != img:
        ctx.diff('oracle', 'readonly-changed', case, 'unchanged', 'changed', 'a refused write changed the file')
    # ... a write that would store nothing is a write all the same (an ordinary file opened read-only refuses write(b'') too)
    for how, prep, arg in (('an empty write', lambda: r.seek(at), b''), ('a write at the end of the view', lambda: r.seek(0, 2), b'abc')):
        try:
            prep()
            r.write(arg)
            ctx.diff('oracle', 'readonly-write-accepted', dict(case, write=how), 'IVFCReadOnlyError', 'accepted', f'{how} on a read-only container was accepted')
        except IVFCReadOnlyError:
            pass
        except Exception as ex:
            ctx.diff('oracle', 'readonly-error', dict(case, write=how), 'IVFCReadOnlyError', pyenv.errname(ex), f'wrong error for {how} on a read-only container')
    r.seek(at)
    # ... "changes nothing" includes the view itself: it still stands where it stood, and reads on from there
    pos, nxt = r.tell(), r.read(24)
    if pos != at or nxt != payloads[0][at:at + 24]:
        ctx.diff('oracle', 'readonly-moved', dict(case, at=at), at, pos, f'a write refused at {at:#x} left the view at {pos:#x} / the next read is not the data there')
    c.close()
    # writes
    cm = mk() if mk else None
    own = None
    if cm and rng.random() < 0.4:
        # a scheme made with an engine of its own: its CMAC is made under THAT engine's key, whatever the container's engine holds
        from pyctr.crypto.engine import CryptoEngine
        pyenv.uninstall_fake_boot9()
        own = CryptoEngine(setup_b9_keys=False)
        cm.crypto = own
        ctx.stat('scheme_with_own_engine')
    c, bio = sc.open_container(img, geom['kind'], cmac_base=cm)
    key = pyenv.rbytes(rng, 16)
    if cm:
        if own is not None:
            own.set_normal_key(SLOT_OF[name], key)
            c._crypto.set_normal_key(SLOT_OF[name], pyenv.rbytes(rng, 16))
        else:
            c._crypto.set_normal_key(SLOT_OF[name], key)
    contents = [bytearray(p) for p in payloads]
    touched = [set() for _ in payloads]
    wrote = False
    for pi, ip in enumerate(info['partitions']):
        r = sc.lv4_reader(c, pi)
        bs4 = ip['block_sizes'][3]
        size = len(payloads[pi])
        ops = []
        for _ in range(rng.randrange(1, 8)):
            k = rng.random()
            blk = rng.randrange((size + bs4 - 1) // bs4)
            o = min(size, max(0, blk * bs4 + rng.choice([0, 0, 1, bs4 - 1, -1, -3])))
            if k < 0.6:
                ln = rng.choice([1, 2, bs4 - 1, bs4, bs4 + 1, 2 * bs4 + 3, 17])
                ops += [['s', o, 0], ['w', pyenv.rbytes(rng, min(ln, 4096)).hex()]]
                if rng.random() < 0.4:
                    ops += [['w', pyenv.rbytes(rng, rng.choice([1, 5, bs4])).hex()]]     # sequential write at the new position
            elif k < 0.85:
                ops += [['s', o, 0], ['r', rng.choice([1, bs4, bs4 + 1, 33])]]
            else:
                ops += [['s', rng.choice([-1, 0, 3]), 2], ['w', pyenv.rbytes(rng, 8).hex()]]   # at / near the end, truncated

        def fail(sig, what, expected, observed, pi=pi):
            ctx.diff('oracle', 'lv4-write:' + sig, dict(case, part=pi, ops=ops), str(expected)[:60], str(observed)[:60], f'verified level-4 view of partition {pi} under writes: {what}')
        ct = fc.Contract(r, payloads[pi], fail, writable=True)
        ct.run(ops)
        contents[pi] = ct.content
        res = ct.results
        wrote = wrote or any(o[0] == 'w' and res[i].startswith('i:') and int(res[i][2:], 16) > 0 for i, o in enumerate(ops) if i < len(res))
        pos = 0
        for o in ops:      # which level-4 blocks were written
            pass
    out = bio.getvalue()
    c.close()
    # the file verifies and holds the written data, for an independent verifier and for a fresh reader
    res = SV.verify_image(out)
    if not res['ok'] or [bytes(d) for d in res['data']] != [bytes(x) for x in contents]:
        ctx.diff('oracle', 'reopen-verify', case, 'ok + written data', dict(ok=res['ok'], bad=res['bad_blocks'][:4], errors=res['errors'][:2]),
                 'after the writes the file does not verify against its own hash levels / header, or holds other data')
    try:
        c2, _ = sc.open_container(out, geom['kind'])
        for pi in range(len(payloads)):
            got = sc.lv4_reader(c2, pi).read()
            if got != bytes(contents[pi]):
                ctx.diff('oracle', 'reopen-read', dict(case, part=pi), 'written data', 'different / filler', f're-opened partition {pi} does not read back the written data')
        c2.close()
    except Exception as ex:
        ctx.diff('oracle', 'reopen-raises', case, 'opens', pyenv.errname(ex) + ': ' + str(ex)[:60], 'the file cannot be opened again after the writes')
    # frame: inactive copies and slack are never touched
    for (o, ln) in info['inactive_ranges'] + info['slack_ranges']:
        if out[o:o + ln] != img[o:o + ln]:
            ctx.diff('oracle', 'frame', dict(case, range=[o, ln]), 'unchanged', 'changed', f'bytes outside the active copies / hash path / header fields changed at {o:#x}')
            break
    if len(out) != len(img):
        ctx.diff('oracle', 'frame-size', case, len(img), len(out), 'file size changed')
    # healing: a block that reads as filler (its data was damaged) is rewritten whole; the same session must then read the new data
    # (verdicts cached before the write are void), and the file must verify
    pi = rng.randrange(len(info['partitions']))
    ip = info['partitions'][pi]
    bs4 = ip['block_sizes'][3]
    b = rng.randrange(ip['level_blocks'][3])
    off, ln = rng.choice(ip['lv4_segments'][b])
    if ln:
        bad = bytearray(img)
        bad[off + rng.randrange(ln)] ^= 0x40
        c3, bio3 = sc.open_container(bytes(bad), geom['kind'])
        r3 = sc.lv4_reader(c3, pi)
        lo = b * bs4
        n = min(bs4, len(payloads[pi]) - lo)
        r3.seek(lo)
        first = r3.read(n)
        new = pyenv.rbytes(rng, n)
        r3.seek(lo)
        k = r3.write(new)
        r3.seek(lo)
        again = r3.read(n)
        hcase = dict(case, part=pi, block=b, heal=True)
        if first != b'\xDD' * n:
            ctx.diff('oracle', 'heal:damaged-block-served', hcase, 'filler', first[:8].hex(), 'a damaged level-4 block was served as valid')
        if k != n or again != new:
            ctx.diff('oracle', 'heal:readback', hcase, new[:8].hex(), (again[:8].hex() if isinstance(again, bytes) else again),
                     f'level-4 block {b} read as filler, was rewritten whole ({k} of {n} bytes stored), and does not read back as written in the same session')
        res3 = SV.verify_image(bio3.getvalue())
        if not res3['ok']:
            ctx.diff('oracle', 'heal:verify', hcase, 'ok', str(res3['bad_blocks'][:3]), 'after rewriting a damaged block the file does not verify')
        c3.close()
        ctx.stat('heal_histories')
    sc.heal_neighbour_case(ctx, case, rng, img, info, payloads, geom)
    if rng.random() < 0.5:
        sc.positioned_case(ctx, case, random.Random(geom['seed'] ^ 0x51A7), img, info, payloads, geom, write=True)
    # CMAC
    if cm and wrote:
        hdr = out[0x100:0x200]
        want = CMAC.new(key, ciphermod=AES).update(hashlib.sha256(b''.join(parts(hdr))).digest()).digest()
        if out[0:0x10] != want:
            ctx.diff('oracle', 'cmac', dict(case, scheme=name), want.hex(), out[0:0x10].hex(), f'CMAC ({name}) does not match the updated header')
    elif not cm and out[0:0x10] != img[0:0x10]:
        ctx.diff('oracle', 'cmac-touched', case, 'unchanged', 'changed', 'CMAC field changed although no scheme was supplied')


def tree_case(ctx, mr, case):
    """correspondence of the write model on hand-made trees"""
    from pyctr.type.save.partdesc.ivfc import IVFCHashTree, IVFC
    from pyctr.type.save.partdesc.common import LevelData
    rng = random.Random(case['tseed'])
    logs = [rng.choice([5, 6, 7]) for _ in range(3)] + [rng.choice([5, 6, 7, 9])]
    bss = [1 << x for x in logs]
    n4 = rng.randrange(1, 12)
    l4 = pyenv.rbytes(rng, n4 * bss[3] - rng.choice([0, 0, 3]))
    levels = [None, None, None, l4]
    for li in (2, 1, 0):
        below, bsb = levels[li + 1], bss[li + 1]
        levels[li] = b''.join(hashlib.sha256(below[i:i + bsb].ljust(bsb, b'\0')).digest() for i in range(0, len(below), bsb))
    master = [hashlib.sha256(levels[0][i:i + bss[0]].ljust(bss[0], b'\0')).digest() for i in range(0, len(levels[0]), bss[0])]
    offs, fpdata = [], b''
    for d in levels:
        offs.append(len(fpdata))
        fpdata += d
    ivfc = IVFC(master_hash_size=32 * len(master), descriptor_size=0x78,
                **{f'lv{i + 1}': LevelData(offset=offs[i], size=len(levels[i]), block_size_log2=logs[i], block_size=bss[i]) for i in range(4)})
    fp = io.BytesIO(fpdata)
    tree = IVFCHashTree(fp, ivfc, list(master))
    writes = []
    for _ in range(rng.randrange(1, 5)):
        off = rng.randrange(len(l4))
        d = pyenv.rbytes(rng, min(rng.choice([1, 3, bss[3], bss[3] + 1, 2 * bss[3]]), len(l4) - off))
        writes.append((off, d))
        tree.write_data(4, off, d)
    data = fp.getvalue()
    impl = [hx(data[offs[i]:offs[i] + len(levels[i])]) for i in range(4)] + [hx(b''.join(tree._master_hashes))]
    line = 'ivfcw ' + ' '.join(zhex(b) for b in bss) + ' ' + ' '.join(hx(d) for d in levels) + ' ' + hx(b''.join(master)) + ' ' + \
           ' '.join(f'{zhex(o)},{hx(d)}' for o, d in writes)
    out = mr.ask(line).split(' ')
    ctx.stat('tree_write_histories')
    if out != impl:
        k = next(i for i, (a, b) in enumerate(zip(out, impl)) if a != b)
        ctx.diff('corr', 'ivfc-write-model', case, out[k][:80], impl[k][:80], f'IVFC write_data: Coq model and implementation differ (level {k + 1 if k < 4 else "master"})')


def gen_cases(ctx, rng):
    for i in range(ctx.n(80, 3000)):
        yield dict(geom=sc.gen_geom(rng, small=True), scheme=i)
    for _ in range(ctx.n(150, 4000)):
        yield dict(tseed=rng.randrange(1 << 30))


def run_cases(ctx, cases):
    mr = ModelRunner({'sha256': lambda h: hx(hashlib.sha256(unhx(h)).digest())})
    try:
        for case in cases:
            ctx.case(case)
            if 'tseed' in case:
                tree_case(ctx, mr, case)
            else:
                run_case(ctx, mr, case)
    finally:
        mr.close()


def run(ctx):
    proof = prove('C18', [], ['C18_props'], static_deps=['Proofs/IvfcWriteProofs.v', 'Proofs/IvfcProofs.v', 'Proofs/DpfsWriteProofs.v', 'Proofs/DpfsProofs.v', 'Proofs/BlocksProofs.v'])
    run_cases(ctx, gen_cases(ctx, ctx.rng))

    def search():
        c2 = Ctx('C18', 'thorough', ctx.seed + 1)
        run_cases(c2, (dict(geom=sc.gen_geom(c2.rng), scheme=i) for i in range(400)))
        bad = [d for d in c2.diffs if d['kind'] == 'oracle']
        return bad[0] if bad else None

    return finish(ctx, proof,
                  'the containers of C17 opened read-write: histories of seek/write/read on the verified level-4 view with writes in block 0 and '
                  'later blocks, unaligned, straddling blocks, sequential without a seek, at the end (truncated); after each history: same-session '
                  'read back, independent verification of the whole file (hash levels, master hashes, descriptor / table hash), re-open with a fresh '
                  'reader, unchanged inactive copies and slack, CMAC for the supplied scheme; read-only containers refuse writes',
                  TRUSTED, ASSUME, search=search)


def replay(ctx, path):
    with open(path) as f:
        payload = json.load(f)
    case = {k: v for k, v in payload['case'].items() if k in ('geom', 'scheme', 'tseed')}
    run_cases(ctx, [case])
    for d in ctx.diffs:
        print('REPRODUCED:', d['what'], 'expected', d['expected'], 'observed', d['observed'])
    return 1 if ctx.diffs else 0
