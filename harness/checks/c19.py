"""C19 -- no input makes a reader hang or consume unbounded resources."""
import json
import os
import random
import re

from ..core import Ctx, ModelRunner, prove, finish, hx
from .. import pyenv, sandbox as SBX, fuzzgen as FG

TRUSTED = [
    'Coq 8.16.1 kernel (coqc); no axioms',
    'fuel theorems: the RomFS directory / file walk (coq/Model/Romfs.v) and the backward LZSS decoder (coq/Model/Lzss.v) never run out of a '
    'fuel that is a function of the input length alone, for EVERY byte string; both models are tied by correspondence runs (C06 for the walk, '
    'here for LZSS: outcome and output of the extracted decoder vs decompress_code on valid and retargeted streams)',
    'what Coq cannot say (CPython wall clock / CPU / resident set) is MEASURED: harness/sandbox.py runs construction + full traversal of every '
    'input in a forked worker under a wall-clock kill, RLIMIT_AS and CPU / RSS accounting; budgets cpu <= 3 s + 4 us*n (40 s + 4 us*n for the LZSS decoder, which may expand any input up to its 35 MiB cap), rss growth <= 200 MiB + 64*n',
    'input generators harness/fuzzgen.py: valid files from the independent builders with every listed offset / link / count / size / exponent '
    'field retargeted (singly, in pairs), and random byte strings',
]
ASSUME = [
    'the measured part is sampled (inputs up to about 100 KiB); only the fuel theorems quantify over all inputs',
    'time budgets are generous multiples of what valid files need, so a violation means super-linear or input-independent cost, not a slow machine',
]


def sig_of(key, verdict):
    """kind : failure class : mutated field classes (indices stripped).  Block-size exponents get one class of their own: which of
    hang / memory / cpu shows depends only on the value written."""
    kind, name, mut = key
    bad = verdict['bad'] or ''
    what = 'hang' if verdict['outcome'] == 'timeout' else ('memory' if 'resident' in bad or 'MemoryError' in bad else
                                                           ('died' if verdict['outcome'] == 'worker-died' else 'cpu'))
    def norm(m):
        d = m.rsplit(':=', 1)[0].rsplit('@', 1)[0]
        mm = re.match(r'^(dir|file)\[.*\]\.(\w+)$', d, re.S)
        if mm:
            return mm.group(1) + '.' + mm.group(2)
        return re.sub(r'\[[^\]]*\]|\d+', '', d)
    fields = sorted({norm(m) for m in mut.split(' & ')})
    if any('block_log' in f for f in fields):
        # exponents >= 64 are refused outright since the repair; only the range below is a listed finding
        vals = [int(m.rsplit(':=', 1)[1], 16) for m in mut.split(' & ') if 'block_log' in m and ':=' in m]
        return f'{kind}:resources:block-size-exponent' + ('<64' if all(v < 64 for v in vals) else '>=64')
    return f'{kind}:{what}:{"+".join(fields)}'


def lzss_corr(ctx, mr, rng, n):
    """extracted LZSS decoder vs decompress_code"""
    from pyctr.type.exefs import decompress_code
    from ..builders import lzss as LZ
    for i in range(n):
        d = bytes(rng.choice(b'abcd') for _ in range(rng.choice([12, 40, 200, 700])))
        code, info = LZ.compress(d, random.Random(i), greedy=rng.random() < 0.7)
        if not code:
            continue
        if rng.random() < 0.6:
            b = bytearray(code)
            for _ in range(rng.choice([1, 1, 2, 4])):
                k = rng.randrange(len(b)) if rng.random() < 0.5 else len(b) - 1 - rng.randrange(min(8, len(b)))
                b[k] = rng.getrandbits(8)
            code = bytes(b)
        if rng.random() < 0.1:
            code = code[:rng.randrange(0, 12)]
        case = dict(lzss=code.hex())
        if len(code) >= 4 and int.from_bytes(code[-4:], 'little') > (1 << 20) and int.from_bytes(code[-4:], 'little') <= 0x2300000:
            continue          # the model would build a list of that many zeros; pyctr's bytearray is cheap
        ctx.case(case)
        try:
            impl = 'ok:' + decompress_code(code).hex()
        except Exception as ex:
            impl = 'e:' + pyenv.errname(ex)
        model = mr.ask('lzss ' + hx(code))
        ctx.stat('lzss_corr')
        ctx.stat('lzss_' + impl.split(':')[0] + ('' if impl.startswith('ok') else '_' + impl[2:]))
        if model != impl:
            ctx.diff('corr', 'lzss-model', case, model[:80], impl[:80], 'LZSS decoder: Coq model and decompress_code differ')


def lv4_bound_corr(ctx, mr, rng, n):
    """the extracted block loop of the level-4 read (Model/IvfcBound.v, bounded by the file for every claimed size) vs IVFCLevel4Reader.read
    on hand-made trees whose level-4 size field claims up to 2^63 bytes: which blocks are fetched, and what comes back"""
    import hashlib
    import io
    from ..core import zhex
    from pyctr.type.save.partdesc.ivfc import IVFCHashTree, IVFCLevel4Reader, IVFC
    from pyctr.type.save.partdesc.common import LevelData
    for _ in range(n):
        log = rng.choice([5, 6, 7, 9])
        bs = 1 << log
        data = pyenv.rbytes(rng, rng.choice([0, 1, bs - 1, bs, bs + 1, 3 * bs, 3 * bs + 7, rng.randrange(0, 6 * bs)]))
        claimed = rng.choice([len(data), len(data) + 1, len(data) + bs, 2 * len(data) + 5 * bs, 1 << 20, 1 << 22])
        levels = [None, None, None, data]
        bss = [4096, 4096, 4096, bs]          # single-block hash levels: no walk up the tree runs off a table
        for li in (2, 1, 0):
            below, bsb = levels[li + 1], bss[li + 1]
            levels[li] = b''.join(hashlib.sha256(below[i:i + bsb].ljust(bsb, b'\0')).digest() for i in range(0, max(len(below), 1), bsb))
        master = [hashlib.sha256(levels[0].ljust(4096, b'\0')).digest()]
        offs, fp = [], b''
        for li in range(4):
            offs.append(len(fp))
            fp += levels[li] + b'\0' * ((-len(levels[li])) % 16)
        fp = fp[:offs[3] + len(data)]              # the file ends where the level-4 data ends
        ivfc = IVFC(master_hash_size=0x20, lv1=LevelData(offs[0], len(levels[0]), 12, 4096), lv2=LevelData(offs[1], len(levels[1]), 12, 4096),
                    lv3=LevelData(offs[2], len(levels[2]), 12, 4096), lv4=LevelData(offs[3], claimed, log, bs), descriptor_size=0x78)
        tree = IVFCHashTree(io.BytesIO(fp), ivfc, list(master))
        fetched = []
        orig = tree.get_block

        def spy(level, block, **kw):
            r = orig(level, block, **kw)
            if level == 4:
                fetched.append(len(r[0]))
            return r
        tree.get_block = spy
        rd = IVFCLevel4Reader(tree, verify=False)
        reqs = [(rng.choice([0, 1, bs, len(data), rng.randrange(0, max(1, len(data) + 2))]), rng.choice([-1, -1, 1, bs, 10 * bs, 1 << 19])) for _ in range(3)]
        impl = []
        for p_, n_ in reqs:
            del fetched[:]
            try:
                rd.seek(p_)
                out = rd.read(n_)
                impl.append(','.join(str(x) for x in fetched if x) or '-')
            except Exception as ex:
                impl.append('e:' + pyenv.errname(ex))
        case = dict(lv4bound=True, bs=bs, have=len(data), claimed=claimed, reqs=reqs)
        ctx.case(case)
        # the implementation clamps an absolute seek to the claimed size; the model is asked at the position the reader really had
        line = 'lv4bound ' + hx(data) + ' ' + zhex(bs) + ' ' + zhex(claimed) + ' ' + ' '.join(zhex(min(p_, claimed)) + ',' + zhex(n_) for p_, n_ in reqs)
        model = mr.ask(line).split(' ')
        ctx.stat('lv4_bound_corr')
        if model != impl:
            ctx.diff('corr', 'lv4bound-model', case, str(model)[:120], str(impl)[:120], 'level-4 block loop: Coq model and IVFCLevel4Reader.read fetch different blocks')


def run_tasks(ctx, tasks, workers=12):
    pool = SBX.Pool(n=workers)
    worst = dict(cpu=0.0, rss=0)

    def on_result(key, kind, data, v):
        ctx.stat('inputs')
        ctx.stat('kind_' + kind)
        ctx.stat('outcome_' + v['outcome'].split(':')[0] + (':' + v['outcome'].split(':')[1] if v['outcome'].startswith('raise') else ''))
        if v['cpu'] is not None:
            worst['cpu'] = max(worst['cpu'], v['cpu'])
            worst['rss'] = max(worst['rss'], v['rss'])
        if v['bad']:
            case = dict(key=key, data=data.hex() if len(data) <= 300000 else None, n=len(data))
            ctx.diff('oracle', sig_of(key, v), case, 'finishes within the budget', v['outcome'], f'{kind} {key[1]} [{key[2]}] ({len(data)} bytes): {v["bad"]}')

    try:
        pool.run(tasks, on_result)
    finally:
        pool.close()
    ctx.stats['worst_cpu_s'] = round(worst['cpu'], 3)
    ctx.stats['worst_rss_growth_MiB'] = worst['rss'] >> 20


def gen(ctx, rng, budget, exhaustive=False):
    for key, kind, data in FG.tasks(rng, budget, exhaustive):
        ctx.case(dict(key=key, n=len(data)))
        yield key, kind, data


def run(ctx):
    proof = prove('C19', [], ['C19_props'], static_deps=['Proofs/RomfsProofs.v', 'Proofs/LzssProofs.v', 'Proofs/IvfcBoundProofs.v', 'Proofs/NcchAvailProofs.v'])
    mr = ModelRunner()
    try:
        lzss_corr(ctx, mr, ctx.rng, ctx.n(150, 3000))
        lv4_bound_corr(ctx, mr, ctx.rng, ctx.n(120, 2000))
    finally:
        mr.close()
    run_tasks(ctx, gen(ctx, ctx.rng, ctx.n(1500, 60000), exhaustive=(ctx.tier == 'thorough')))
    pyenv.uninstall_fake_boot9()

    def search():
        bad = [d for d in ctx.diffs if d['kind'] == 'oracle']
        return bad[0] if bad else None

    return finish(ctx, proof,
                  'valid RomFS (bare and IVFC-wrapped), ExeFS, NCCH, CIA, CCI, TMD, SMDH, NAND header, DISA, DIFF, config save, seed DB and LZSS '
                  'inputs from the independent builders with every listed offset / link / count / size / exponent field overwritten by 0, 1, its own '
                  'offset, other links, file size +-1, 2^31-1, 2^32-1, 2^63, ... singly and in pairs, plus random byte strings: construction + full '
                  'traversal (every section / level / file read to the end) in a forked worker; CPU, wall clock and resident-set growth against '
                  'budgets linear in the input size; extracted LZSS decoder vs decompress_code on valid and corrupted streams',
                  TRUSTED, ASSUME, search=search)


def replay(ctx, path):
    with open(path) as f:
        payload = json.load(f)
    case = payload['case']
    if 'lzss' in case:
        mr = ModelRunner()
        try:
            from pyctr.type.exefs import decompress_code
            code = bytes.fromhex(case['lzss'])
            try:
                impl = 'ok:' + decompress_code(code).hex()
            except Exception as ex:
                impl = 'e:' + pyenv.errname(ex)
            model = mr.ask('lzss ' + hx(code))
            if model != impl:
                print('REPRODUCED: model', model[:80], 'implementation', impl[:80])
                return 1
            return 0
        finally:
            mr.close()
    if case.get('lv4bound'):
        print('level-4 bound correspondence case: re-run the check with the same seed')
        return 2
    if case.get('data') is None:
        print('input too large to be stored; re-run the check with the same seed')
        return 2
    run_tasks(ctx, [(case['key'], case['key'][0], bytes.fromhex(case['data']))], workers=1)
    for d in ctx.diffs:
        print('REPRODUCED:', d['what'])
    return 1 if ctx.diffs else 0
