"""C19 -- no input makes a reader hang or consume unbounded resources."""
import json
import os
import random
import re

from ..core import Ctx, ModelRunner, prove, finish, hx
from .. import pyenv, sandbox as SBX, fuzzgen as FG

TRUSTED = [
    'Coq 8.16.1 kernel (coqc); no axioms',
    'fuel theorems: the RomFS directory / file walk (coq/Model/Romfs.v) and the backward LZSS decoder (coq/Model/Lzss.v) never run out of a '
    'fuel that is a function of the input length alone, for EVERY byte string; both models are tied by correspondence runs (C06 for the walk, '
    'here for LZSS: outcome and output of the extracted decoder vs decompress_code on valid and retargeted streams)',
    'what Coq cannot say (CPython wall clock / CPU / resident set) is MEASURED: harness/sandbox.py runs construction + full traversal of every '
    'input in a forked worker under a wall-clock kill, RLIMIT_AS and CPU / RSS accounting; budgets cpu <= 3 s + 4 us*n (40 s + 4 us*n for the LZSS decoder, which may expand any input up to its 35 MiB cap), rss growth <= 200 MiB + 64*n',
    'input generators harness/fuzzgen.py: valid files from the independent builders with every listed offset / link / count / size / exponent '
    'field retargeted (singly, in pairs), and random byte strings',
]
ASSUME = [
    'the measured part is sampled (inputs up to about 100 KiB); only the fuel theorems quantify over all inputs',
    'time budgets are generous multiples of what valid files need, so a violation means super-linear or input-independent cost, not a slow machine',
]


def sig_of(key, verdict):
    """kind : failure class : mutated field classes (indices stripped).  Block-size exponents get one class of their own: which of
    hang / memory / cpu shows depends only on the value written."""
    kind, name, mut = key
    bad = verdict['bad'] or ''
    what = 'hang' if verdict['outcome'] == 'timeout' else ('memory' if 'resident' in bad or 'MemoryError' in bad else
                                                           ('died' if verdict['outcome'] == 'worker-died' else 'cpu'))
    def norm(m):
        d = m.rsplit(':=', 1)[0].rsplit('@', 1)[0]
        mm = re.match(r'^(dir|file)\[.*\]\.(\w+)$', d, re.S)
        if mm:
            return mm.group(1) + '.' + mm.group(2)
        return re.sub(r'\[[^\]]*\]|\d+', '', d)
    fields = sorted({norm(m) for m in mut.split(' & ')})
    if any('block_log' in f for f in fields):
        # exponents >= 64 are refused outright since the repair; only the range below is a listed finding
        vals = [int(m.rsplit(':=', 1)[1], 16) for m in mut.split(' & ') if 'block_log' in m and ':=' in m]
        return f'{kind}:resources:block-size-exponent' + ('<64' if all(v < 64 for v in vals) else '>=64')
    return f'{kind}:{what}:{"+".join(fields)}'


def lzss_corr(ctx, mr, rng, n):
    """extracted LZSS decoder vs decompress_code"""
    from pyctr.type.exefs import decompress_code
    from ..builders import lzss as LZ
    for i in range(n):
        d = bytes(rng.choice(b'abcd') for _ in range(rng.choice([12, 40, 200, 700])))
        code, info = LZ.compress(d, random.Random(i), greedy=rng.random() < 0.7)
        if not code:
            continue
        if rng.random() < 0.6:
            b = bytearray(code)
            for _ in range(rng.choice([1, 1, 2, 4])):
                k = rng.randrange(len(b)) if rng.random() < 0.5 else len(b) - 1 - rng.randrange(min(8, len(b)))
                b[k] = rng.getrandbits(8)
            code = bytes(b)
        if rng.random() < 0.1:
            code = code[:rng.randrange(0, 12)]
        case = dict(lzss=code.hex())
        if len(code) >= 4 and int.from_bytes(code[-4:], 'little') > (1 << 20) and int.from_bytes(code[-4:], 'little') <= 0x2300000:
            continue          # the model would build a list of that many zeros; pyctr's bytearray is cheap
        ctx.case(case)
        try:
            impl = 'ok:' + decompress_code(code).hex()
        except Exception as ex:
            impl = 'e:' + pyenv.errname(ex)
        model = mr.ask('lzss ' + hx(code))
        ctx.stat('lzss_corr')
        ctx.stat('lzss_' + impl.split(':')[0] + ('' if impl.startswith('ok') else '_' + impl[2:]))
        if model != impl:
            ctx.diff('corr', 'lzss-model', case, model[:80], impl[:80], 'LZSS decoder: Coq model and decompress_code differ')


def run_tasks(ctx, tasks, workers=12):
    pool = SBX.Pool(n=workers)
    worst = dict(cpu=0.0, rss=0)

    def on_result(key, kind, data, v):
        ctx.stat('inputs')
        ctx.stat('kind_' + kind)
        ctx.stat('outcome_' + v['outcome'].split(':')[0] + (':' + v['outcome'].split(':')[1] if v['outcome'].startswith('raise') else ''))
        if v['cpu'] is not None:
            worst['cpu'] = max(worst['cpu'], v['cpu'])
            worst['rss'] = max(worst['rss'], v['rss'])
        if v['bad']:
            case = dict(key=key, data=data.hex() if len(data) <= 300000 else None, n=len(data))
            ctx.diff('oracle', sig_of(key, v), case, 'finishes within the budget', v['outcome'], f'{kind} {key[1]} [{key[2]}] ({len(data)} bytes): {v["bad"]}')

    try:
        pool.run(tasks, on_result)
    finally:
        pool.close()
    ctx.stats['worst_cpu_s'] = round(worst['cpu'], 3)
    ctx.stats['worst_rss_growth_MiB'] = worst['rss'] >> 20


def gen(ctx, rng, budget, exhaustive=False):
    for key, kind, data in FG.tasks(rng, budget, exhaustive):
        ctx.case(dict(key=key, n=len(data)))
        yield key, kind, data


def run(ctx):
    proof = prove('C19', [], ['C19_props'], static_deps=['Proofs/RomfsProofs.v', 'Proofs/LzssProofs.v'])
    mr = ModelRunner()
    try:
        lzss_corr(ctx, mr, ctx.rng, ctx.n(150, 3000))
    finally:
        mr.close()
    run_tasks(ctx, gen(ctx, ctx.rng, ctx.n(1500, 60000), exhaustive=(ctx.tier == 'thorough')))
    pyenv.uninstall_fake_boot9()

    def search():
        bad = [d for d in ctx.diffs if d['kind'] == 'oracle']
        return bad[0] if bad else None

    return finish(ctx, proof,
                  'valid RomFS (bare and IVFC-wrapped), ExeFS, NCCH, CIA, CCI, TMD, SMDH, NAND header, DISA, DIFF, config save, seed DB and LZSS '
                  'inputs from the independent builders with every listed offset / link / count / size / exponent field overwritten by 0, 1, its own '
                  'offset, other links, file size +-1, 2^31-1, 2^32-1, 2^63, ... singly and in pairs, plus random byte strings: construction + full '
                  'traversal (every section / level / file read to the end) in a forked worker; CPU, wall clock and resident-set growth against '
                  'budgets linear in the input size; extracted LZSS decoder vs decompress_code on valid and corrupted streams',
                  TRUSTED, ASSUME, search=search)


def replay(ctx, path):
    with open(path) as f:
        payload = json.load(f)
    case = payload['case']
    if 'lzss' in case:
        mr = ModelRunner()
        try:
            from pyctr.type.exefs import decompress_code
            code = bytes.fromhex(case['lzss'])
            try:
                impl = 'ok:' + decompress_code(code).hex()
            except Exception as ex:
                impl = 'e:' + pyenv.errname(ex)
            model = mr.ask('lzss ' + hx(code))
            if model != impl:
                print('REPRODUCED: model', model[:80], 'implementation', impl[:80])
                return 1
            return 0
        finally:
            mr.close()
    if case.get('data') is None:
        print('input too large to be stored; re-run the check with the same seed')
        return 2
    run_tasks(ctx, [(case['key'], case['key'][0], bytes.fromhex(case['data']))], workers=1)
    for d in ctx.diffs:
        print('REPRODUCED:', d['what'])
    return 1 if ctx.diffs else 0
