"""C11 -- title metadata: parse/serialise are inverse and every record is hash-protected."""
import hashlib
import io
import json
import random

from ..core import Ctx, ModelRunner, prove, finish, hx, unhx
from .. import pyenv
from ..builders import pack as P

TRUSTED = [
    'Coq 8.16.1 kernel (coqc); no axioms; SHA-256 is an uninterpreted Section variable and NOTHING is assumed about it: '
    'the tamper theorem concludes "records unchanged OR an explicit collision"; the serialise-then-parse theorem assumes only len (H x) = 32',
    'hand model coq/Model/Tmd.v of TitleMetadataReader.load (layout per signature type, hash checks, record parsing, '
    'hash-twice check, issuer decode), tied by the correspondence run on valid, corrupted and truncated inputs',
    'translator py2gallina.py: TitleVersion / ContentTypeFlags conversions regenerated each run',
    'extraction ExtrOcamlBasic only; SHA-256 answered by hashlib through the call-back pipe; independent builder harness/builders/pack.py',
]
ASSUME = [
    'the tamper theorem needs both inputs to contain all chunk records their header announces (a truncated chunk area is parsed into short '
    'phantom records by the implementation and by the model)',
    'the round-trip theorems are about the hand model Model/TmdSer.v of __bytes__ and of the field extraction of load (tied by the '
    'correspondence run: bytes(load(b)) and every field of the object, on well-formed files, accepted tampers and files that load without '
    'being well formed); the issuer is modelled as its ASCII bytes and the title id as its 8 bytes (str.encode/decode("ascii") on bytes < 128 '
    'and bytes.hex/fromhex are trusted to be inverse); C11_load_of_bytes assumes that the hash function returns 32 bytes',
    'parse/serialise round trips are additionally decided on the implementation by direct oracle on generated TMDs (all six signature types, '
    'all 65 536 category values in the thorough tier)',
    'well-formed TMD as in DESIGN section 7: chunk type bits within 0xC007, non-zero info records contiguous from slot 0, zero signature padding, '
    'distinct chunk records',
]
SIGS = [0x10000, 0x10001, 0x10002, 0x10003, 0x10004, 0x10005]


def sha(h):
    return hx(hashlib.sha256(unhx(h)).digest())


def gen_tmd(rng, category=None):
    n = rng.choice([0, 1, 2, 3, 5, 9, 64, 300]) if rng.random() < 0.3 else rng.randrange(0, 8)
    if category is not None:
        n = rng.randrange(0, 3)          # the sweep over all category words does not need large record tables
    ids = rng.sample(range(1 << 32), n)
    ch = [{'id': ids[j], 'index': rng.choice([j, rng.getrandbits(16)]), 'type': rng.choice([0, 1, 2, 4, 0x4000, 0x8000, 0x8001, 0xC007, 0x4005]),
           'size': rng.choice([0, 1, (1 << 64) - 1, rng.getrandbits(40)]), 'hash': pyenv.rbytes(rng, 32)} for j in range(n)]
    gen_tmd.twin = None
    if n >= 2 and rng.random() < 0.3:
        # two contents told apart by one bit of the content id only (same size and digest, as DLC parts can be): the corruption that flips
        # that bit makes one record a copy of the other
        i, j = rng.sample(range(n), 2)
        b = rng.randrange(32)
        ch[j] = dict(ch[i], id=ch[i]['id'] ^ (1 << b))
        if all(c['id'] != ch[j]['id'] for k, c in enumerate(ch) if k != j):
            gen_tmd.twin = (j, 3 - b // 8, b % 8)
    cat = rng.getrandbits(16) if category is None else category
    tid = (rng.getrandbits(16) << 48) | (cat << 32) | rng.getrandbits(32)
    extra = {}
    if n and rng.random() < 0.5:
        k = rng.randrange(1, min(n, 64) + 1)
        cuts = sorted(rng.sample(range(1, n), k - 1)) if k > 1 else []
        extra['info_split'] = [b - a for a, b in zip([0] + cuts, cuts + [n])]
    for name, width in (('version', 1), ('ca_crl_version', 1), ('signer_crl_version', 1), ('reserved1', 1), ('srl_flag', 1),
                        ('system_version', 8), ('title_type', 4), ('group_id', 2), ('reserved2', 4), ('reserved3', 0x31),
                        ('access_rights', 4), ('boot_count', 2), ('padding', 2)):
        if rng.random() < 0.4:
            extra[name] = bytes(rng.choice([0, 0x7F, 0x80, 0xFF, rng.getrandbits(8)]) for _ in range(width))
    if rng.random() < 0.3:
        extra['issuer'] = bytes(rng.choice(b'Root-CA0123456789abcdefXS') for _ in range(rng.randrange(1, 0x40)))
        if rng.random() < 0.4 and len(extra['issuer']) > 6:
            # the field is 0x40 bytes, not a C string: a NUL in the middle is a byte like any other
            k = rng.randrange(1, len(extra['issuer']) - 2)
            extra['issuer'] = extra['issuer'][:k] + b'\0' + extra['issuer'][k + 1:]
    sig = rng.choice(SIGS)
    extra['sig_padding'] = bytes(0x40 if sig in (0x10002, 0x10005) else 0x3C)
    kw = dict(sig_type=sig, title_version=rng.getrandbits(16), save_size=rng.getrandbits(32), srl_save_size=rng.getrandbits(32), extra=extra)
    raw = P.build_tmd(tid, ch, **kw)
    gen_tmd.last_kwargs = kw
    return raw, ch, tid, sig


def category_list_spec(v):
    """what ContentCategories(v).to_list() is as a function of v alone (the decomposition of the enum module of Python 3.8, which pyctr
    carries as util.decompose): the named flags contained in v, one unnamed member per remaining bit, largest first"""
    from pyctr.type.tmd import ContentCategories as CC
    name = CC(v)._name_
    members = [(m._name_, m._value_) for m in CC if m._value_ and m._value_ & v == m._value_]
    rest = v
    for _, mv in members:
        rest &= ~mv
    bit = 1 << 15
    while bit:
        if rest & bit:
            members.append((CC(bit)._name_, bit))
        bit >>= 1
    if not members:
        members.append((name, v))
    members.sort(key=lambda m: m[1], reverse=True)
    if len(members) > 1 and members[0][1] == v:
        members.pop(0)
    out = []
    if name is not None:
        out.append(name)
    if len(members) == 1 and members[0][0] is None:
        out.append(members[0][1])
    else:
        for mn, mv in members:
            if str(mn or mv) not in out:
                out.append(str(mn or mv))
    return out


def category_history_probe(ctx):
    """the category list of a title is a function of its bytes: in a fresh interpreter, loading a TMD whose category word has two
    unnamed bits, then TMDs with each of those bits alone, then the first one again gives the first answer again"""
    import subprocess, sys, os
    code = (
        'import io, sys, warnings; warnings.simplefilter("ignore")\n'
        'from pyctr.type.tmd import TitleMetadataReader as T\n'
        'raws = [bytes.fromhex(l) for l in sys.stdin.read().split()]\n'
        'for r in raws: print(repr(T.load(io.BytesIO(r)).title_content_categories))\n')
    rng = random.Random(ctx.seed)
    outs = []
    for cat in (0x4200, 0x4201, 0x0600, 0x3000):
        bits = [1 << k for k in range(16) if cat >> k & 1 and (1 << k) not in (1, 2, 4, 8, 0x10, 0x20, 0x40, 0x80, 0x100, 0x8000)]
        seq = [cat] + bits + [cat]
        raws = [P.build_tmd((4 << 48) | (c << 32) | 0x1234, []) for c in seq]
        env = dict(os.environ, PYTHONPATH=os.environ.get('PYTHONPATH', ''))
        res = subprocess.run([sys.executable, '-c', code], input=' '.join(r.hex() for r in raws), capture_output=True, text=True, env=env, timeout=120)
        lines = res.stdout.strip().split('\n')
        ctx.stat('category_history_probes')
        case = dict(kind='category-history', category=cat, then=bits)
        ctx.case(case)
        if res.returncode or len(lines) != len(seq):
            ctx.diff('oracle', 'tmd-category-history', case, 'lists', (res.stderr or res.stdout)[-200:], 'the category history probe did not run')
        elif lines[0] != lines[-1]:
            ctx.diff('oracle', 'tmd-category-history', case, lines[0], lines[-1],
                     f'the same TMD bytes (category word {cat:#06x}) give the category list {lines[0]} in a fresh interpreter and {lines[-1]} after '
                     f'TMDs with the categories {[hex(b) for b in bits]} were loaded: the parsed object depends on what was parsed before')


def dump(t):
    i_ = ' '.join('%x,%x,%s' % (i.index_offset, i.command_count, hx(i.hash)) for i in t.info_records)
    c_ = ' '.join('%s,%x,%x,%x,%s' % (hx(bytes.fromhex(c.id)), c.cindex, int(c.type), c.size, hx(c.hash)) for c in t.chunk_records)
    return i_, c_


def model_vs_impl(ctx, mr, case, raw, verify):
    from pyctr.type.tmd import TitleMetadataReader
    try:
        t = TitleMetadataReader.load(io.BytesIO(raw), verify_hashes=verify)
        i_, c_ = dump(t)
        impl = 'ok %x %s ? I %s C %s' % (t.signature[0], hx(t.signature[1]), i_, c_)
    except Exception as e:
        t, impl = None, 'e:' + pyenv.errname(e)
    out = mr.ask('tmd %d %s' % (verify, hx(raw)))
    if out.startswith('ok'):
        parts = out.split(' ')
        parts[3] = '?'
        out = ' '.join(parts)
    if out != impl:
        ctx.diff('corr', 'tmd-load-model', case, out[:300], impl[:300], 'TMD load: Coq model and implementation differ')
    return t, impl


FIELDS = ['_u_issuer', '_u_version', '_u_ca_crl_version', '_u_signer_crl_version', '_u_reserved1', '_u_system_version', 'title_id',
          '_u_title_type', '_u_group_id', 'save_size', 'srl_save_size', '_u_reserved2', '_u_srl_flag', '_u_reserved3', '_u_access_rights',
          'title_version', 'content_count', '_u_boot_count', '_u_padding']


def field_dump(t):
    out = []
    for a in FIELDS:
        v = getattr(t, a)
        if a == '_u_issuer':
            v = hx(v.encode('ascii'))
        elif a == 'title_id':
            v = hx(bytes.fromhex(v))
        elif a == 'title_version':
            v = '%x' % int(v)
        elif isinstance(v, (bytes, bytearray)):
            v = hx(bytes(v))
        else:
            v = '%x' % v
        out.append(v)
    return ' '.join(out)


def reserialise_vs_model(ctx, mr, case, raw, verify):
    """bytes(load(raw)) and the fields of the loaded object: Coq model (Model/TmdSer.v, the object of the round-trip theorems) vs implementation"""
    from pyctr.type.tmd import TitleMetadataReader
    try:
        t = TitleMetadataReader.load(io.BytesIO(raw), verify_hashes=verify)
    except Exception as e:
        t, impl = None, 'e:' + pyenv.errname(e)
    if t is not None:
        try:
            impl = 'ok ' + hx(bytes(t)) + ' F ' + field_dump(t)
        except Exception as e:
            impl = 'ok e:' + pyenv.errname(e)
    out = mr.ask('tmdrt %d %s' % (verify, hx(raw)))
    if out != impl:
        a, b = out.split(' '), impl.split(' ')
        k = next((i for i, (x, y) in enumerate(zip(a, b)) if x != y), min(len(a), len(b)))
        ctx.diff('corr', 'tmd-serialise-model', case, ' '.join(a[k:k + 1])[:120], ' '.join(b[k:k + 1])[:120],
                 f'bytes(load(b)) / object fields: Coq model and implementation differ (token {k})')
    ctx.stat('reserialise_model')
    return t


def entry_points(ctx, case, raw, t, impl):
    """the other ways of loading a TMD (from_file with a file object / a path on a filesystem object, default options) give the verdict
    load() gives: verification is on by default everywhere"""
    from pyctr.type.tmd import TitleMetadataReader
    from fs.memoryfs import MemoryFS
    mem = MemoryFS()
    mem.writebytes('t.tmd', raw)
    lead = bytes(range(1, 1 + (len(raw) % 37) + 3))

    def positioned():
        f = io.BytesIO(lead + raw + b'\x99' * 5)
        f.seek(len(lead))
        return TitleMetadataReader.load(f)

    def second_of_two():
        f = io.BytesIO(bytes(raw[:4]) + bytes(len(raw) - 4) + raw)      # something TMD-sized first, then the file itself
        f.seek(len(raw))
        return TitleMetadataReader.load(f)
    for name, call in (('load(stream positioned at a non-zero offset)', positioned), ('load(second TMD in one stream)', second_of_two),
                       ('from_file(fileobj)', lambda: TitleMetadataReader.from_file(io.BytesIO(raw))),
                       ('from_file(path, fs=)', lambda: TitleMetadataReader.from_file('t.tmd', fs=mem))):
        try:
            t2 = call()
            got = 'ok'
        except Exception as e:
            t2, got = None, 'e:' + pyenv.errname(e)
        want = 'ok' if t is not None else impl
        if got != want or (t2 is not None and dump(t2) != dump(t)):
            ctx.diff('oracle', 'tmd-entry-point', dict(case, entry=name), want, got, f'{name} does not give the verdict of load(): {got} instead of {want}')
        ctx.stat('entry_points')
    mem.close()


def covered_records(t):
    out = []
    for ir in t.info_records:
        out.append(tuple(t.chunk_records[ir.index_offset:ir.index_offset + ir.command_count]))
    return out


def run_case(ctx, mr, case):
    from pyctr.type.tmd import TitleMetadataReader, TitleMetadataError
    rng = random.Random(case['seed'])
    raw, ch, tid, sig = gen_tmd(rng, case.get('category'))
    ctx.stat('sig_%x' % sig)
    # 1. round trips on the implementation
    t, impl = model_vs_impl(ctx, mr, case, raw, True)
    if t is None:
        ctx.diff('oracle', 'tmd-wellformed-rejected', case, 'loads', impl, f'well-formed TMD rejected: {impl}')
        return
    try:
        back = bytes(t)
    except Exception as ex:
        ctx.diff('oracle', 'tmd-serialise-raises', case, 'bytes', pyenv.errname(ex), f'serialising a loaded TMD raised {pyenv.errname(ex)}')
        return
    reserialise_vs_model(ctx, mr, case, raw, True)
    if rng.random() < 0.4:
        entry_points(ctx, case, raw, t, impl)
    if rng.random() < 0.5:
        # inputs that load but are not well formed: the serialisation differs from the input, the model must say how
        odd = bytearray(raw)
        hs_ = len(raw) - 0xC4 - 0x900 - 48 * len(ch)
        kind = rng.randrange(4)
        if kind == 0:
            odd[4 + rng.randrange(hs_ - 4)] ^= 0x5A                                   # signature / padding bytes
        elif kind == 1 and ch:
            odd[hs_ + 0xC4 + 0x900 + 48 * rng.randrange(len(ch)) + 6] ^= rng.choice([0x10, 0x20, 0x08])   # type bits the object does not keep
        elif kind == 2:
            k = rng.randrange(1, 64)                                                  # an info record behind a gap
            odd[hs_ + 0xC4 + 36 * k:hs_ + 0xC4 + 36 * k + 4] = bytes([0xFF, 0xF0, 0, 0])
        else:
            odd[hs_ + rng.randrange(0x40, 0xA4)] ^= 0x81                              # any header field behind the issuer
        reserialise_vs_model(ctx, mr, dict(case, odd=kind), bytes(odd), False)
    if back != raw:
        k = next((i for i, (a, b) in enumerate(zip(back, raw)) if a != b), min(len(back), len(raw)))
        ctx.diff('oracle', 'tmd-bytes-roundtrip', case, raw[k:k + 16].hex(), back[k:k + 16].hex(), f'bytes(load(b)) != b at offset {k:#x}')
    reloaded_cats = None
    try:
        t2 = TitleMetadataReader.load(io.BytesIO(back))
        reloaded_cats = list(t2.title_content_categories)
        same = (t2.title_id == t.title_id and t2.save_size == t.save_size and t2.srl_save_size == t.srl_save_size
                and t2.title_version == t.title_version and t2.info_records == t.info_records and t2.chunk_records == t.chunk_records
                and t2.signature == t.signature and t2.content_count == t.content_count
                and all(getattr(t2, a) == getattr(t, a) for a in t.__slots__ if a.startswith('_u_')))
        if not same:
            ctx.diff('oracle', 'tmd-object-roundtrip', case, 'equal object', 'different', 'load(bytes(t)) != t')
    except Exception as ex:
        ctx.diff('oracle', 'tmd-object-roundtrip', case, 'loads', pyenv.errname(ex), 're-loading serialised TMD raised')
    if rng.random() < 0.3:
        # the object is mutable: records assigned after a first serialisation are what the next serialisation holds
        kw = dict(gen_tmd.last_kwargs)
        kw['extra'] = {k: v for k, v in kw['extra'].items() if k != 'info_split'}
        n2 = rng.randrange(0, 6)
        ch2 = [{'id': rng.getrandbits(32), 'index': j, 'type': rng.choice([0, 1, 0x4000]), 'size': rng.getrandbits(30), 'hash': pyenv.rbytes(rng, 32)} for j in range(n2)]
        raw2 = P.build_tmd(tid, ch2, **kw)
        try:
            t1 = TitleMetadataReader.load(io.BytesIO(raw))
            first = bytes(t1)
            t2 = TitleMetadataReader.load(io.BytesIO(raw2))
            t1.info_records, t1.chunk_records, t1.content_count = t2.info_records, t2.chunk_records, t2.content_count
            second = bytes(t1)
        except Exception as ex:
            first, second = raw, pyenv.errname(ex)
        ctx.stat('reassigned_records')
        if first != raw or second != raw2:
            ctx.diff('oracle', 'tmd-bytes-after-assignment', dict(case, chunks2=n2), 'the serialisation of the records assigned', 'something else',
                     'bytes(tmd) after info_records / chunk_records were assigned does not hold the assigned records (a stale info block or hash?)')
    cat_word = (tid >> 32) & 0xFFFF
    ctx.stat('category_lists')
    if list(t.title_content_categories) != category_list_spec(cat_word) or reloaded_cats not in (None, list(t.title_content_categories)):
        ctx.diff('oracle', 'tmd-category-list', dict(case, category_word=cat_word), category_list_spec(cat_word), list(t.title_content_categories),
                 f'category word {cat_word:#06x}: title_content_categories is not the decomposition of the word (it depends on which other '
                 f'category words were seen before)')
    if t.title_id != '%016x' % tid or len(t.chunk_records) != len(ch):
        ctx.diff('oracle', 'tmd-fields', case, '%016x' % tid, t.title_id, 'title id / record count differ from what was packed')
    # 2. tamper sweep: flips in the info block and in covered chunk records
    hs = 4 + {0x10000: 0x200, 0x10001: 0x100, 0x10002: 0x3C, 0x10003: 0x200, 0x10004: 0x100, 0x10005: 0x3C}[sig] + (0x40 if sig in (0x10002, 0x10005) else 0x3C)
    info_lo, info_hi = hs + 0xC4, hs + 0xC4 + 0x900
    good = covered_records(t)
    good_infos = t.info_records
    twin = gen_tmd.twin
    for flip_no in range(case['flips']):
        bad = bytearray(raw)
        kind = rng.randrange(4)
        if flip_no == 0 and twin is not None:
            kind, pos = 2, info_hi + 48 * twin[0] + twin[1]
            bad[pos] ^= 1 << twin[2]
            ctx.stat('tamper_makes_twin_records')
        elif kind == 0 or len(raw) == info_hi:
            pos = rng.randrange(info_lo, info_lo + max(0x24 * max(1, len(good_infos)) + 8, 8))
        elif kind == 1:
            pos = rng.randrange(info_lo, info_hi)
        else:
            pos = rng.randrange(info_hi, len(raw))
        if flip_no == 0 and twin is not None:
            pass
        elif kind == 3:
            bad[pos] = rng.getrandbits(8)
            if pos + 1 < len(bad):
                bad[pos + 1] = rng.getrandbits(8)
        else:
            bad[pos] ^= 1 << rng.randrange(8)
        bad = bytes(bad)
        if bad == raw:
            continue
        ctx.stat('tamper_cases')
        tcase = dict(case, tamper_pos=pos)
        tt, timpl = model_vs_impl(ctx, mr, tcase, bad, True)
        if rng.random() < 0.5:
            entry_points(ctx, tcase, bad, tt, timpl)
        if tt is None:
            if not timpl.startswith('e:Pyctr3'):
                ctx.diff('oracle', 'tmd-tamper-error-class', tcase, 'a title-metadata error', timpl, 'tampered TMD failed with a non-TMD error')
            ctx.stat('tamper_rejected')
            continue
        ctx.stat('tamper_accepted')
        if tt.info_records != good_infos or covered_records(tt) != good:
            ctx.diff('oracle', 'tmd-tamper-accepted', tcase, 'records equal to the untampered ones', 'different records',
                     f'flip at {pos:#x} accepted with different covered records')
    # 3. without verification the same tampering loads (control: the check is what rejects)
    if rng.random() < 0.1 and len(raw) > info_hi:
        bad = bytearray(raw)
        bad[info_hi + rng.randrange(len(raw) - info_hi)] ^= 1
        model_vs_impl(ctx, mr, dict(case, noverify=True), bytes(bad), False)


def run_cases(ctx, cases):
    mr = ModelRunner({'sha256': sha})
    try:
        for case in cases:
            ctx.case(case)
            run_case(ctx, mr, case)
    finally:
        mr.close()


def gen_cases(ctx, rng):
    for _ in range(ctx.n(250, 3000)):
        yield dict(seed=rng.randrange(1 << 30), flips=rng.choice([2, 4, 8]))
    cats = range(65536) if not ctx.quick() else [rng.randrange(65536) for _ in range(1200)] + [0, 1, 0x200, 0x8000, 0xFFFF, 0x10, 0x8013]
    for c in cats:
        yield dict(seed=c, flips=0, category=c)


def run(ctx):
    proof = prove('C11', ['tmd'], ['C11_props'], static_deps=['Proofs/TmdProofs.v', 'Proofs/TmdSerProofs.v', 'Base/PyInt.v', 'Base/Fields.v'])
    run_cases(ctx, gen_cases(ctx, ctx.rng))
    category_history_probe(ctx)

    def search():
        c2 = Ctx('C11', 'thorough', ctx.seed + 1)
        run_cases(c2, (dict(seed=c2.rng.randrange(1 << 30), flips=8) for _ in range(2000)))
        bad = [d for d in c2.diffs if d['kind'] == 'oracle']
        return bad[0] if bad else None

    return finish(ctx, proof,
                  'generated TMDs over all six signature types, 0-300 chunk records, 1-64 info records, reserved/unused header bytes in '
                  '{0,0x7F,0x80,0xFF,random}, random issuers; category words (all 65 536 in the thorough tier); per TMD: bytes(load(b)) = b, '
                  'load(bytes(t)) = t, and single-bit / two-byte corruptions of the info block and of the chunk records (accepted loads must keep '
                  'all covered records); model compared with the implementation on every load incl. corrupted ones',
                  TRUSTED, ASSUME, search=search)


def replay(ctx, path):
    with open(path) as f:
        payload = json.load(f)
    case = {k: v for k, v in payload['case'].items() if k in ('seed', 'flips', 'category')}
    run_cases(ctx, [case])
    for d in ctx.diffs:
        print('REPRODUCED:', d['what'], 'expected', d['expected'], 'observed', d['observed'])
    return 1 if ctx.diffs else 0
