"""C07 -- ExeFS reader reproduces entries and bytes and honours documented name aliases."""
import io
import json
import random

from ..core import Ctx, ModelRunner, prove, finish, hx, unhx
from .. import pyenv, filecontract as fc
from ..builders.exefs import build_exefs

TRUSTED = [
    'Coq 8.16.1 kernel (coqc); no axioms; str.lower is an uninterpreted Section variable with the stated hypothesis that it keeps a ".bin" suffix',
    'translator py2gallina.py: exefs._normalize_path regenerated each run (the alias theorem is about the regenerated term)',
    'hand model coq/Model/Exefs.v of the header loop of ExeFSReader.__init__, tied by the correspondence run (extracted exefs_parse vs reader.entries on valid and malformed headers)',
    'extraction ExtrOcamlBasic only + ocaml/driver*.ml; independent builder harness/builders/exefs.py',
]
ASSUME = [
    'entry bytes are served by SubsectionIO windows (C09) at 0x200 + offset: checked here by the contract oracle on sampled offsets/lengths',
    'the whole-header theorem is stated per slot (C07_slot_roundtrip); that the ten slots and the reversed hash area are walked as modelled is tie 2',
]
NAMECHARS = 'abcdefghijklmnopqrstuvwxyz.-_0123456789ABCXYZ'


def gen_name(rng, used):
    while True:
        n = rng.randrange(1, 9)
        s = ''.join(rng.choice(NAMECHARS) for _ in range(n))
        if rng.random() < 0.3:
            s = rng.choice(['icon', 'banner', '.code', 'logo', 'a', 'x.bi', 'bin', '.bin1', 'a.b.c', 'ABCDEFGH'])
        if s.startswith('/') or s.lower().endswith('.bin') or s in used:
            continue
        return s


def gen_case(rng):
    n = rng.randrange(0, 11)
    slots = rng.sample(range(10), n)
    used, files = set(), []
    for _ in range(n):
        name = gen_name(rng, used)
        used.add(name)
        size = rng.choice([0, 1, 5, 0x1FF, 0x200, 0x201, 0x400, rng.randrange(0, 0x500)])
        data = pyenv.rbytes(rng, size)
        if name == 'icon' and rng.random() < 0.6:
            # an entry is just bytes, whatever its name: something that looks like an SMDH (magic, full size) with arbitrary contents,
            # or a cut one, is a well-formed ExeFS entry all the same
            data = b'SMDH' + pyenv.rbytes(rng, rng.choice([0x36C0 - 4, 0x36C0 - 4, 0x36C0 - 5, 0x1FC, 0]))
        files.append([name, data.hex()])
    start = rng.choice([0, 0, 7, 0x200])
    mal = None
    r = rng.random()
    if r < 0.12 and n:
        mal = ['offset', rng.randrange(n), rng.choice([1, 0x100, 0x1FF, 0x201])]
    elif r < 0.24 and n:
        mal = ['name', rng.randrange(n), rng.randrange(0, 8), rng.choice([0x80, 0xC3, 0xFF])]
        if rng.random() < 0.5:
            # a well-formed multi-byte UTF-8 sequence: not ASCII either (a decoder switched to UTF-8 would accept it)
            mal = ['name2', rng.randrange(n), rng.randrange(0, 7), rng.choice([0xC3A9, 0xCEA9, 0xD0B6])]
    elif r < 0.32 and n:
        # a size or offset field with bit 31 set (fields are unsigned 32-bit; offsets stay multiples of 0x200): reported as stored
        mal = ['wide', rng.randrange(n), rng.choice(['size', 'offset']), rng.choice([0x80000000, 0x80000200, 0xFFFFFE00, 0xC0000000 + 0x200 * rng.randrange(1000)])]
        if mal[2] == 'size':
            mal[3] = rng.choice([mal[3], 0xFFFFFFFF, 0x80000001])
    return dict(files=files, slots=slots, start=start, mal=mal, pseed=rng.randrange(1 << 30))


def run_case(ctx, mr, case):
    from pyctr.type.exefs import ExeFSReader, ExeFSFileNotFoundError, BadOffsetError, ExeFSNameError
    files = [(n, bytes.fromhex(d)) for n, d in case['files']]
    img, info = build_exefs(files, case['slots'])
    img = bytearray(img)
    mal = case['mal']
    if mal:
        slot = case['slots'][mal[1]]
        if mal[0] == 'offset':
            off = int.from_bytes(img[16 * slot + 8:16 * slot + 12], 'little') + mal[2]
            img[16 * slot + 8:16 * slot + 12] = off.to_bytes(4, 'little')
        elif mal[0] == 'wide':
            fo = 8 if mal[2] == 'offset' else 12
            img[16 * slot + fo:16 * slot + fo + 4] = mal[3].to_bytes(4, 'little')
        elif mal[0] == 'name2':
            pos = min(mal[2], max(0, len(files[mal[1]][0]) - 1), 6)
            img[16 * slot + pos:16 * slot + pos + 2] = mal[3].to_bytes(2, 'big')
        else:
            pos = min(mal[2], len(files[mal[1]][0]) - 1)
            img[16 * slot + pos] = mal[3]
    img = bytes(img)
    rng = random.Random(case['pseed'])
    prefix = pyenv.rbytes(rng, case['start'])
    bio = io.BytesIO(prefix + img + b'TRAILER')
    bio.seek(case['start'])
    exp_err = None
    if mal and mal[0] != 'wide':
        exp_err = 'Pyctr11' if mal[0] == 'offset' else 'Pyctr12'
    try:
        r = ExeFSReader(bio, closefd=False)
        got = [(e.name, e.offset, e.size, e.hash) for e in r.entries.values()]
        err = None
    except Exception as ex:
        r, got, err = None, None, pyenv.errname(ex)
    # model of the header parse
    out = mr.ask('exefs ' + hx(img[:0x200]))
    if out.startswith('e:'):
        mres = out[2:]
    else:
        seen = {}
        for tok in out.split(' ') if out else []:
            nm, o, s, h = tok.split(',')
            seen[unhx(nm).decode('ascii')] = (unhx(nm).decode('ascii'), int(o, 16), int(s, 16), unhx(h))
        mres = list(seen.values())
    impl = err if err else got
    # the reader stops at the first bad slot in slot order; so does the model; several bad slots: same first one
    if (err is None) != (not isinstance(mres, str)) or (err is not None and err != mres) or \
       (err is None and sorted(map(repr, mres)) != sorted(map(repr, got))):
        ctx.diff('corr', 'exefs-parse-model', case, str(mres)[:200], str(impl)[:200], 'ExeFS header: Coq model and reader disagree')
    ctx.stat('malformed' if mal else 'wellformed')
    if mal and mal[0] == 'wide':
        ctx.stat('wide_fields')
        if err:
            ctx.diff('oracle', 'exefs-open-raises', case, 'a reader', err, f'ExeFS whose {mal[2]} field has bit 31 set rejected with {err}')
            return
        want = sorted((n, mal[3] if (i == mal[1] and mal[2] == 'offset') else info[n]['offset'], mal[3] if (i == mal[1] and mal[2] == 'size') else info[n]['size'], info[n]['hash'])
                      for i, (n, _) in enumerate(files))
        if sorted(got) != want:
            ctx.diff('oracle', 'exefs-entries', case, str(want)[:300], str(sorted(got))[:300], f'an entry whose {mal[2]} field is {mal[3]:#x} is not reported as stored')
        r.close()
        return
    if mal:
        if err != exp_err:
            # a corrupted name byte that happens to stay ASCII / offset landing on a multiple is not an error
            still_bad = (mal[0] in ('offset', 'name2')) or (mal[3] >= 0x80)
            if still_bad:
                ctx.diff('oracle', 'exefs-reject:' + mal[0], case, exp_err, err, f'malformed {mal[0]} not rejected with the ExeFS error')
        return
    if err:
        ctx.diff('oracle', 'exefs-open-raises', case, 'a reader', err, f'well-formed ExeFS rejected with {err}')
        return
    want = sorted((n, info[n]['offset'], info[n]['size'], info[n]['hash']) for n, _ in files)
    if sorted(got) != want:
        ctx.diff('oracle', 'exefs-entries', case, str(want)[:300], str(sorted(got))[:300], 'entries differ from what was packed')
    if len(r) != len(files):
        ctx.diff('oracle', 'exefs-len', case, len(files), len(r), 'len(reader) differs')
    # every alias of every stored name; bytes at sampled offsets
    for name, data in files:
        for spelling in (name, '/' + name, name + '.bin', '/' + name + '.bin', name + rng.choice(['.BIN', '.Bin'])):
            ctx.stat('alias_opens')
            try:
                f = r.open(spelling)
            except Exception as ex:
                ctx.diff('oracle', 'exefs-alias', dict(case, spelling=spelling), 'opens ' + name, pyenv.errname(ex),
                         f'stored name {name!r} cannot be opened as {spelling!r}')
                continue

            def fail(sig, what, expected, observed, spelling=spelling):
                ctx.diff('oracle', 'exefs-file:' + sig, dict(case, spelling=spelling), expected, observed, f'ExeFS entry {spelling!r}: {what}')
            c = fc.Contract(f, data, fail, writable=False)
            c.run(fc.gen_ops(rng, len(data), 4, writable=False))
            f.close()
    # several handles on one entry alive at the same time (opened under different spellings): each has its own position, a fresh
    # handle starts at 0 whatever the others did, and closing one leaves the others usable
    for name, data in files[:3]:
        try:
            a = r.open(name)
            a.read(len(data) // 2 + 1)
            b = r.open(rng.choice([name, '/' + name, name + '.bin']))
            first = b.read(5)
            a.seek(0)
            c = r.open('/' + name + '.bin')
            c.seek(2)
            rest_b, got_a, got_c = b.read(), a.read(), c.read(3)
            a.close()
            after = (b.seek(0), b.read())
            ctx.stat('handles_on_one_entry')
            if a is b or b is c or (first, rest_b, got_a, got_c, after) != (data[:5], data[5:], data, data[2:5], (0, data)):
                ctx.diff('oracle', 'exefs-handles-share-state', dict(case, entry=name), 'independent handles', 'handles that share a position or a close',
                         f'two handles on entry {name!r} alive at the same time are not independent')
            b.close()
            c.close()
        except Exception as ex:
            ctx.diff('oracle', 'exefs-handles-share-state', dict(case, entry=name), 'independent handles', pyenv.errname(ex),
                     f'two handles on entry {name!r} alive at the same time: {pyenv.errname(ex)}')
    stored = {n for n, _ in files}
    for _ in range(3):
        probe = gen_name(rng, stored)
        for spelling in (probe, '/' + probe, probe + '.bin'):
            try:
                r.open(spelling)
                ctx.diff('oracle', 'exefs-missing', dict(case, spelling=spelling), 'ExeFSFileNotFoundError', 'opened',
                         f'name {spelling!r} is not stored but opened')
            except ExeFSFileNotFoundError:
                pass
            except Exception as ex:
                ctx.diff('oracle', 'exefs-missing', dict(case, spelling=spelling), 'ExeFSFileNotFoundError', pyenv.errname(ex),
                         f'wrong error for a missing name')
    r.close()


def exhaustive():
    """every name length 1..8 x alias forms x upper/lower .bin, one file each"""
    for n in range(1, 9):
        for ch in 'a.Z9':
            name = (ch * n)
            if name.lower().endswith('.bin') or name.startswith('/'):
                continue
            for slot in (0, 9):
                yield dict(files=[[name, '00' * n]], slots=[slot], start=0, mal=None, pseed=n)


def run_cases(ctx, cases):
    mr = ModelRunner()
    try:
        for case in cases:
            ctx.case(case)
            run_case(ctx, mr, case)
    finally:
        mr.close()


def run(ctx):
    proof = prove('C07', ['exefs'], ['C07_props'], static_deps=['Proofs/ExefsProofs.v', 'Proofs/ExefsHeaderProofs.v', 'Base/PySlice.v', 'Base/PyInt.v'])
    run_cases(ctx, (gen_case(ctx.rng) for _ in range(ctx.n(250, 6000))))
    n0 = ctx.evaluations
    run_cases(ctx, exhaustive())

    def search():
        c2 = Ctx('C07', 'thorough', ctx.seed + 1)
        run_cases(c2, (gen_case(c2.rng) for _ in range(4000)))
        bad = [d for d in c2.diffs if d['kind'] == 'oracle']
        return bad[0] if bad else None

    return finish(ctx, proof,
                  'random ExeFS images: 0-10 entries in random slots, names of 1-8 characters (incl. dots, upper case, '
                  'names that are prefixes of ".bin"), sizes incl. 0 and multiples of 0x200, non-zero start offset; all four alias '
                  'spellings (+ upper-case .BIN) of every stored name, missing names, reads at boundary offsets; malformed stream: '
                  'entry offsets off the 0x200 grid, non-ASCII name bytes; plus every name length x alias form',
                  TRUSTED, ASSUME, extra_cov={'exhaustive_small_scope_cases': ctx.evaluations - n0}, search=search)


def replay(ctx, path):
    with open(path) as f:
        payload = json.load(f)
    case = {k: v for k, v in payload['case'].items() if k != 'spelling'}
    run_cases(ctx, [case])
    for d in ctx.diffs:
        print('REPRODUCED:', d['what'], 'expected', d['expected'], 'observed', d['observed'])
    return 1 if ctx.diffs else 0
