"""C15 -- handles onto one file work from different threads as if used one after another."""
import io
import json
import random

from ..core import Ctx, ModelRunner, prove, finish
from .. import pyenv, threadtrace as TT, schedmodel as SM, closecommon as CC, nandcommon as NC

TRUSTED = [
    'Coq 8.16.1 kernel (coqc); no axioms',
    'coq/Model/Sched.v: threads = lists of atomic actions on shared / thread-local position variables, locks, files; interleaving semantics '
    'instrumented with a private copy of the shared positions per thread.  coq/Proofs/SchedProofs.v: for ALL programs passing the computable '
    'discipline [guarded], ALL schedules and ALL initial states the shared-store observations equal the private ones (so every transfer happens '
    'at the position the thread itself set), read-only workloads observe exactly what each thread observes alone, and no reachable state is a deadlock',
    'harness/threadtrace.py: programs are read off the real code in every run (traced locks, traced base file, traced position changes of '
    'windows / wrappers / merged files / level files); harness/schedmodel.py translates events into actions, derives lockof and a lock order',
    'tie: the same threads are executed on the real objects under forced schedules (one traced operation per turn) and (a) their base-file '
    'positions are compared with the extracted model run of the same schedule, (b) their bytes with the serial run',
]
ASSUME = [
    'one thread per handle; a preemption point after every traced operation (lock, base-file call, position change of an intermediate object); '
    'pure computation between two traced operations is atomic with the operation that follows it',
    'GIL release inside C extensions, OS-level position races between processes and fairness are not modelled',
    'operation mixes and handle combinations are sampled; schedules are not: the theorems cover all of them for the traced programs',
]


# ---------------------------------------------------------------------------------------------------------------------
# scenarios: -> (base TBase, [handle per thread]); construction must be deterministic

def _ops(rng, size, writable, region=None):
    """operation list of one thread on a handle of `size` bytes; everything stays inside `region` (handle coordinates) when given"""
    ops = []
    lo, hi = region if region else (0, size)
    for _ in range(rng.choice([2, 3])):
        a = rng.randrange(lo, max(lo + 1, hi))
        ops.append(('seek', a))
        room = max(1, hi - a) if region else 1 << 30
        if writable and rng.random() < 0.5:
            n = max(1, min(rng.choice([1, 5, 16, 33]), hi - a))
            ops.append(('write', bytes(rng.getrandbits(8) for _ in range(n))))
            ops.append(('seek', a))
            ops.append(('read', n))
        else:
            n = min(rng.choice([1, 7, 16, 40]), room)
            ops.append(('read', n))
            if rng.random() < 0.5:
                ops.append(('read', max(0, min(rng.choice([3, 16]), room - n))))
    return ops


# threads that write get exclusive absolute regions (reads and writes of a thread stay inside its own), so that the outcome of a
# correct implementation does not depend on the order of the threads: handle -> (lo, hi) in handle coordinates
REGIONS = {'windows': {0: (0, 0x30), 1: (0x90, 0x100), 2: (0x140, 0x300)}}


BIG_WINDOW = (8 << 20) + 0x1234
BYTES_ONLY = ('windows_big',)


def e_ctr_big(win):
    from pyctr.crypto.engine import CryptoEngine
    e = CryptoEngine(setup_b9_keys=False)
    e.set_normal_key(0x2C, bytes(range(16)))
    return e.create_ctr_io(0x2C, win, 3)


def run_ops(h, ops):
    out = []
    for op in ops:
        if op[0] == 'seek':
            h.seek(op[1])
        elif op[0] == 'read':
            if len(out) % 2 == 1 and TT.own_readinto(h):
                # the library's own readinto, where the tree under test has one: same bytes, another code path to the shared file
                buf = bytearray(op[1])
                k = h.readinto(buf)
                out.append(bytes(buf[:k or 0]))
            else:
                out.append(h.read(op[1]))
        else:
            out.append(h.write(op[1]))
    return out


def build(kind, sel):
    """-> dict(base=TBase, handles=[...], sizes=[...], writable=bool, keep=...)"""
    TT.begin_scenario()
    pyenv.install_fake_boot9(CC.B9SEED)
    from pyctr.crypto import seeddb
    seeddb._seeds.clear()
    seeddb._loaded_from_default_paths = True
    im = CC.images()
    from pyctr.fileio import SubsectionIO
    if kind == 'windows':
        base = TT.TBase(io.BytesIO(bytes((i * 7) & 0xFF for i in range(0x400))))
        hs = [SubsectionIO(base, 0x10, 0x100), SubsectionIO(base, 0x80, 0x100), SubsectionIO(base, 0x40, 0x300)]
        return dict(base=base, handles=[hs[i] for i in sel], writable=True, keep=hs)
    if kind == 'windows_big':
        # one read call far larger than any buffer size a window might cut its reads into: still one seek + read under the file's lock
        n = BIG_WINDOW
        base = TT.TBase(io.BytesIO((bytes(range(256)) + bytes(range(255, -1, -1)) + b'\x5a' * 509) * (n // 1021 + 2)))
        hs = [SubsectionIO(base, 0x10, n), SubsectionIO(base, 0x1000, 0x100), e_ctr_big(SubsectionIO(base, 0x333, n))]
        return dict(base=base, handles=[hs[i] for i in sel], writable=False, keep=hs)
    if kind == 'wrappers':
        from pyctr.crypto.engine import CryptoEngine
        e = CryptoEngine(setup_b9_keys=False)
        e.set_normal_key(0x2C, bytes(16))
        e.set_normal_key(0x03, bytes(range(16)))
        base = TT.TBase(io.BytesIO(bytes((i * 5) & 0xFF for i in range(0x400))))
        hs = [e.create_ctr_io(0x2C, SubsectionIO(base, 0x20, 0x100), 7), e.create_ctr_io(0x03, SubsectionIO(base, 0x100, 0x100), 9),
              e.create_cbc_io(0x2C, SubsectionIO(base, 0x200, 0x100), bytes(16)), SubsectionIO(base, 0x0, 0x400)]
        return dict(base=base, handles=[hs[i] for i in sel], writable=False, keep=hs + [e])
    if kind == 'romfs':
        from pyctr.type.romfs import RomFSReader
        base = TT.TBase(io.BytesIO(im['romfs']))
        r = RomFSReader(base)
        hs = [r.openbin('/a.txt'), r.openbin('/d/b.bin'), r.openbin('/d/b.bin')]
        return dict(base=base, handles=[hs[i] for i in sel], writable=False, keep=[r] + hs)
    if kind == 'exefs':
        from pyctr.type.exefs import ExeFSReader
        base = TT.TBase(io.BytesIO(im['exefs']))
        r = ExeFSReader(base)
        hs = [r.open('icon'), r.open('.code'), r.open('banner')]
        return dict(base=base, handles=[hs[i] for i in sel], writable=False, keep=[r] + hs)
    if kind in ('exefs_code', 'exefs_lzss'):
        # '.code-decompressed': an alias of the stored .code (not compressed) or a memory-backed entry (compressed)
        from pyctr.type.exefs import ExeFSReader
        from ..builders import exefs as XB, lzss as LZ
        plain = bytes((i * 11) & 0xFF for i in range(0x300)) + bytes(8)
        code = plain
        if kind == 'exefs_lzss':
            plain = b'abcabcabd' * 60
            code = LZ.compress(plain, None, greedy=True)[0]
        img = XB.build_exefs([('icon', b'\x01' * 0x36C0), ('.code', code), ('banner', b'\x02' * 0x80)])[0]
        base = TT.TBase(io.BytesIO(img))
        r = ExeFSReader(base, _load_icon=False)
        r.decompress_code()
        hs = [r.open('.code-decompressed'), r.open('banner'), r.open('.code'), r.open('.code-decompressed')]
        return dict(base=base, handles=[hs[i] for i in sel], writable=False, keep=[r] + hs)
    if kind == 'ncch_plain':
        # unencrypted NCCH: section handles and the files of the nested readers are windows stacked on windows
        from pyctr.type.ncch import NCCHReader, NCCHSection
        spec = dict(CC._ncch_spec(False), mode='nocrypto')
        from .. import ncchcommon as nc
        image = nc.build(spec)[0]
        base = TT.TBase(io.BytesIO(image))
        r = NCCHReader(base)
        files = list(r.romfs.walk.files('/'))
        hs = [r.romfs.openbin(files[0]), r.romfs.openbin(files[-1]), r.open_raw_section(NCCHSection.RomFS), r.exefs.open('icon'), r.exefs.open('.code'),
              r.open_raw_section(NCCHSection.FullDecrypted)]
        return dict(base=base, handles=[hs[i] for i in sel], writable=False, keep=[r] + hs)
    if kind == 'cci':
        # partitions are windows on the image; everything opened from a partition's NCCH is a window on that window
        from pyctr.type.cci import CCIReader, CCISection
        from pyctr.type.ncch import NCCHSection
        base = TT.TBase(io.BytesIO(im['cci']))
        r = CCIReader(base)
        c0, c1 = r.contents[CCISection.Application], r.contents[CCISection.Manual]
        info = next(iter(c0.romfs.walk.files('/')))
        hs = [c0.open_raw_section(NCCHSection.ExtendedHeader), c0.exefs.open('icon'), c0.romfs.openbin(info), c0.open_raw_section(NCCHSection.RomFS),
              c1.exefs.open('icon'), r.open_raw_section(CCISection.Application), c0.open_raw_section(NCCHSection.FullDecrypted)]
        return dict(base=base, handles=[hs[i] for i in sel], writable=False, keep=[r] + hs)
    if kind in ('ncch', 'ncch_special'):
        from pyctr.type.ncch import NCCHReader, NCCHSection
        base = TT.TBase(io.BytesIO(im[kind]))
        r = NCCHReader(base)
        info = next(iter(r.romfs.walk.files('/')))
        hs = [r.open_raw_section(NCCHSection.ExtendedHeader), r.open_raw_section(NCCHSection.RomFS), r.exefs.open('icon'), r.exefs.open('.code'),
              r.romfs.openbin(info), r.open_raw_section(NCCHSection.FullDecrypted), r.open_raw_section(NCCHSection.ExeFS), r.open_raw_section(NCCHSection.FullDecrypted)]
        return dict(base=base, handles=[hs[i] for i in sel], writable=False, keep=[r] + hs)
    if kind == 'cia':
        from pyctr.type.cia import CIAReader
        base = TT.TBase(io.BytesIO(im['cia']))
        r = CIAReader(base)
        from pyctr.type.ncch import NCCHSection
        hs = [r.open_raw_section(0), r.open_raw_section(1), r.contents[0].exefs.open('icon'), r.contents[0].open_raw_section(NCCHSection.FullDecrypted),
              r.contents[1].open_raw_section(NCCHSection.ExtendedHeader)]
        return dict(base=base, handles=[hs[i] for i in sel], writable=False, keep=[r] + hs)
    if kind == 'nand':
        from pyctr.type.nand import NAND, NANDSection
        case = NC.gen_case(random.Random(5), force=dict(layout='retail', cid_mode='given', otp_mode='dec', essential=False, bonus=False))
        img, info, spec, kw, truth = NC.materialise(case)
        base = TT.TBase(img)
        r = NAND(base, **kw)
        hs = [r.open_raw_section(NANDSection.FIRM0), r.open_raw_section(NANDSection.FIRM1), r.open_ctr_partition(0), r.open_twl_partition(0),
              r.open_raw_section(NANDSection.AGBSAVE), r.open_raw_section(NANDSection.Header)]
        return dict(base=base, handles=[hs[i] for i in sel], writable=True, keep=[r] + hs, sparse=img)
    if kind in ('disa', 'disa_cold'):
        from pyctr.crypto.engine import CryptoEngine
        from pyctr.type.save.disa import DISA
        from pyctr.type.save.partdesc.ivfc import IVFCLevel4Reader
        base = TT.TBase(io.BytesIO(im['disa']))
        r = DISA(base, crypto=CryptoEngine(setup_b9_keys=False))
        hs = [IVFCLevel4Reader(r.partitions[0].ivfc_hash_tree), IVFCLevel4Reader(r.partitions[0].ivfc_hash_tree), IVFCLevel4Reader(r.partitions[0].ivfc_hash_tree, verify=False)]
        if kind == 'disa':
            # which blocks a read re-verifies depends on the verification cache the readers share (under the tree's reentrant lock): with a
            # cold cache the PROGRAM of a thread depends on who came first, which straight-line programs cannot express.  'disa' = warm
            # cache (model + bytes), 'disa_cold' = cold cache (bytes under forced schedules only)
            for h in hs[:2]:
                h.read()
                h.seek(0)
        return dict(base=base, handles=[hs[i] for i in sel], writable=False, keep=[r] + hs)
    if kind == 'dpfs_writes':
        # several views of one DPFS level 3, written with overlapping multi-block data: the outcome depends on the order, but it must be
        # the outcome of SOME order
        from pyctr.crypto.engine import CryptoEngine
        from pyctr.type.save.diff import DIFF
        from pyctr.type.save.partdesc.dpfs import DPFSLevel3FileIO
        base = TT.TBase(io.BytesIO(im['diff']))
        r = DIFF(base, crypto=CryptoEngine(setup_b9_keys=False))
        lv3 = r.partitions[0].dpfs_lv3_file._lv3
        hs = [DPFSLevel3FileIO(lv3) for _ in range(3)]
        return dict(base=base, handles=[hs[i] for i in sel], writable=True, keep=[r, lv3] + hs, block=lv3._block_size, size=lv3.size)
    if kind == 'ivfc_writes':
        # several verified level-4 views of one hash tree writing overlapping blocks: data, hash levels and master hash of every
        # write go together
        from pyctr.crypto.engine import CryptoEngine
        from pyctr.type.save.diff import DIFF
        from pyctr.type.save.partdesc.ivfc import IVFCLevel4Reader
        base = TT.TBase(io.BytesIO(im['diff']))
        r = DIFF(base, crypto=CryptoEngine(setup_b9_keys=False))
        tree = r.partitions[0].ivfc_hash_tree
        hs = [IVFCLevel4Reader(tree) for _ in range(3)]
        for h in hs:
            h.read()
            h.seek(0)
        return dict(base=base, handles=[hs[i] for i in sel], writable=True, keep=[r, tree] + hs, block=tree._ivfc.lv4.block_size if hasattr(tree, '_ivfc') else 0x200,
                    size=handle_size(hs[0]))
    raise ValueError(kind)


# scenarios whose threads write overlapping ranges: any forced schedule must give the outcome of one of the serial orders
ORDER_DEPENDENT = ('dpfs_writes', 'ivfc_writes')

SCENARIOS = [
    ('windows', [(0, 1), (0, 2), (0, 1, 2)]),
    ('windows_big', [(0, 1), (1, 2)]),
    ('wrappers', [(0, 1), (0, 2), (1, 3), (0, 1, 2)]),
    ('romfs', [(0, 1), (1, 2)]),
    ('exefs', [(0, 1), (1, 2)]),
    ('exefs_code', [(0, 1), (0, 2), (0, 3)]),
    ('exefs_lzss', [(0, 1), (0, 3)]),
    ('ncch_plain', [(0, 1), (0, 2), (3, 4), (0, 5), (2, 3)]),
    ('cci', [(0, 1), (1, 2), (2, 3), (0, 4), (1, 5), (2, 6), (0, 1, 2)]),
    ('ncch', [(0, 1), (2, 3), (2, 4), (0, 5), (2, 5), (4, 5), (5, 7), (1, 4)]),
    ('ncch_special', [(2, 3), (3, 5), (3, 6), (6, 5), (0, 6)]),
    ('cia', [(0, 1), (0, 2), (2, 3), (3, 4), (1, 3)]),
    ('nand', [(0, 1), (0, 2), (2, 3), (0, 4), (3, 5), (2, 4), (0, 2, 3)]),
    ('disa', [(0, 1), (0, 2)]),
    ('disa_cold', [(0, 1), (0, 2)]),
    ('dpfs_writes', [(0, 1), (0, 1, 2)]),
    ('ivfc_writes', [(0, 1)]),
]


def handle_size(h):
    pos = h.tell() if hasattr(h, 'tell') else 0
    try:
        end = h.seek(0, 2)
        h.seek(pos)
        return end
    except Exception:
        return 0x100


def image_bytes(sc):
    inner = sc['base'].inner
    if 'sparse' in sc:
        return tuple(sorted((p, bytes(b)) for p, b in inner.pages.items()))
    return inner.getvalue()


def gen_ops(rng, kind, sel):
    sc = build(kind, sel)
    TT.name_objects(sc['handles'] + [sc['base']])
    sizes = [min(handle_size(h), 0x2000) for h in sc['handles']]
    ops = []
    if kind in ORDER_DEPENDENT:
        bs, size = sc['block'], sc['size']
        for i, h in enumerate(sc['handles']):
            a = min(max(0, size - 1), rng.choice([0, bs // 2, bs - 1, bs]))
            n = max(1, min(size - a, rng.choice([2 * bs, 2 * bs + 3, 3 * bs])))
            ops.append([('seek', a), ('write', bytes([0x41 + i]) * n), ('seek', a), ('read', n)])
        return [[list(o) if o[0] != 'write' else ['write', o[1].hex()] for o in t] for t in ops]
    if kind == 'windows_big':
        for i in sel:
            ops.append([('seek', 7 * i), ('read', -1)] if i != 1 else [('seek', 5), ('read', 16), ('seek', 40), ('read', 7), ('seek', 0), ('read', 0x100)])
        return [[list(o) for o in t] for t in ops]
    for i, h in enumerate(sc['handles']):
        # writes of different threads go to disjoint thirds of the smallest handle (so the final image is order-independent)
        w = sc['writable'] and kind in ('windows',) or (kind == 'nand' and i < 3)
        ops.append(_ops(rng, sizes[i], w, REGIONS.get(kind, {}).get(sel[i])))
    return [[list(o) if o[0] != 'write' else ['write', o[1].hex()] for o in t] for t in ops]


def decode_ops(ops):
    return [[tuple(o) if o[0] != 'write' else ('write', bytes.fromhex(o[1])) for o in t] for t in ops]


def run_case(ctx, mr, case, instances=None):
    kind, sel = case['kind'], tuple(case['sel'])
    ops = decode_ops(case['ops'])
    n = len(sel)
    # 1. serial run, traced
    sc = build(kind, sel)
    TT.name_objects(sc['handles'] + [sc['base']])
    init = {}
    for o in TT.S.keep:
        p = TT.pos_of(o)
        if p is not None:
            init[TT.name_of(o)] = p
    init[TT.name_of(sc['base'])] = sc['base'].inner.tell()
    traces, serial = [], []
    for i in range(n):
        ev, out = TT.record(lambda i=i: run_ops(sc['handles'][i], ops[i]))
        traces.append(ev)
        serial.append(out)
    serial_image = image_bytes(sc)
    outcomes = None
    if kind in ORDER_DEPENDENT:
        # every call is atomic, the calls of different threads may come in any order: all interleavings of the threads' (seek, call)
        # units, each run one after another on a fresh container
        units = [[ops[i][k:k + 2] for k in range(0, len(ops[i]), 2)] for i in range(n)]

        def interleavings(rest):
            if all(not u for u in rest):
                yield []
                return
            for i, u in enumerate(rest):
                if u:
                    for tail in interleavings([x[1:] if j == i else x for j, x in enumerate(rest)]):
                        yield [i] + tail
        outcomes = []
        for order in interleavings([list(range(len(u))) for u in units]):
            scp = build(kind, sel)
            res = [[] for _ in range(n)]
            nxt = [0] * n
            for i in order:
                res[i] += run_ops(scp['handles'][i], units[i][nxt[i]])
                nxt[i] += 1
            o = (res, image_bytes(scp))
            if o not in outcomes:
                outcomes.append(o)
    tr = SM.translate(traces)
    sizes = {TT.name_of(sc['base']): (sc['base'].inner.size if 'sparse' in sc else len(sc['base'].inner.getvalue()))}
    ctx.stat('scenarios')
    ctx.stat('kind_' + kind)
    ctx.stat('actions', sum(len(p) for p in tr['progs']))
    cold = kind.endswith('_cold') or kind in BYTES_ONLY
    # (the extracted model represents file contents as lists: a scenario over megabytes is decided on the bytes only)
    first = mr.ask(SM.model_line(tr, init, sizes, [])) if kind not in BYTES_ONLY else 'guarded'
    guarded = first.startswith('guarded')
    if cold:
        ctx.stat('bytes_only_scenarios')
    if instances is not None and not cold:
        instances.append((case, tr, guarded))
    ctx.stat('guarded' if guarded else 'unguarded')
    # 2. forced schedules on the real objects
    rng = random.Random(case['seed'])
    total = sum(len(p) for p in tr['progs'])
    scheds = [[i for _ in range(total) for i in range(n)],                                # round robin, one operation each
              [i for i in range(n) for _ in range(total)]]                                # (almost) serial
    for _ in range(case.get('nsched', 4)):
        scheds.append([rng.randrange(n) for _ in range(2 * total)])
    for s in scheds:
        sc2 = build(kind, sel)
        TT.name_objects(sc2['handles'] + [sc2['base']])
        ctl = TT.Controller(n)
        events, results, errors, executed = ctl.run([lambda i=i: run_ops(sc2['handles'][i], ops[i]) for i in range(n)], s)
        ctx.stat('schedules')
        cinfo = dict(case, schedule=[e for e in executed if isinstance(e, int)][:400])
        if any(isinstance(e, tuple) for e in executed):
            ctx.diff('oracle', f'deadlock:{kind}:{list(sel)}', cinfo, 'all threads finish', 'deadlock', f'{kind}{list(sel)}: threads block each other forever ({executed[-1]})')
            continue
        if outcomes is not None:
            if any(e is not None for e in errors):
                ctx.diff('oracle', f'raises:{kind}:{list(sel)}', cinfo, 'no exception', str([pyenv.errname(e) for e in errors if e is not None]), f'{kind}{list(sel)}: a thread raises')
            elif (list(results), image_bytes(sc2)) not in outcomes:
                ctx.diff('oracle', f'not-serialisable:{kind}:{list(sel)}', cinfo, 'the outcome of one of the orders of the calls', 'none of them',
                         f'{kind}{list(sel)}: what the threads read back and what the file holds is not the outcome of ANY order of the calls, each taken as a whole')
            continue
        for i in range(n):
            if errors[i] is not None:
                ctx.diff('oracle', f'raises:{kind}:{list(sel)}', cinfo, 'no exception', pyenv.errname(errors[i]), f'{kind}{list(sel)}: thread {i} raises {pyenv.errname(errors[i])}: {errors[i]}')
            elif results[i] != serial[i]:
                ctx.diff('oracle', f'wrong-bytes:{kind}:{list(sel)}', cinfo, 'the bytes of the serial run', 'different bytes / counts',
                         f'{kind}{list(sel)}: thread {i} gets different data than when the threads run one after another')
        if image_bytes(sc2) != serial_image:
            ctx.diff('oracle', f'wrong-image:{kind}:{list(sel)}', cinfo, 'the image of the serial run', 'different image', f'{kind}{list(sel)}: writes landed elsewhere than in the serial run')
        # correspondence: base-file positions of the real run vs the model run of the executed schedule
        if kind in BYTES_ONLY:
            continue
        out = mr.ask(SM.model_line(tr, init, sizes, [e for e in executed if isinstance(e, int)]))
        model = out.split(' ', 1)[1].split('/')
        real = ['F' + SM.real_obs(events[i]) for i in range(n)]
        if guarded and not cold and model != real:
            ctx.diff('corr', f'sched-model:{kind}:{list(sel)}', cinfo, str(model)[:300], str(real)[:300], f'{kind}{list(sel)}: model run and real run of the same schedule differ')
    return guarded or cold


def open_race_probe(ctx):
    """two threads each OPEN their first handle on one base file at the same moment (a reader without a live handle yet: RomFS files,
    plain windows), then use them.  The switch is forced at the one place where it matters: the moment a window finds no lock registered
    for its base file and makes one.  Whatever the order, the two handles must exclude each other afterwards: a read of one cannot be
    torn by a complete seek+read of the other."""
    import threading
    import pyctr.fileio as F
    from pyctr.type.romfs import RomFSReader
    im = CC.images()
    for kind in ('windows', 'romfs'):
        data = bytes((i * 13 + 5) & 0xFF for i in range(0x400)) if kind == 'windows' else im['romfs']
        barrier = threading.Barrier(2)
        state = dict(tear=None)

        class Base(io.BytesIO):
            def seek(self, off, whence=0):
                r = super().seek(off, whence)
                hook = state['tear']
                if hook is not None and threading.current_thread().name == 'opener-0':
                    state['tear'] = None
                    hook()
                return r

        def make_lock():
            try:
                barrier.wait(timeout=0.4)        # both threads are now between "no lock registered" and "register mine"
            except threading.BrokenBarrierError:
                pass
            return TT._real_Lock()
        base = Base(data)
        reader = RomFSReader(base) if kind == 'romfs' else None
        handles = [None, None]
        saved = F.Lock
        F.Lock = make_lock
        try:
            def opener(i):
                handles[i] = (F.SubsectionIO(base, 0x10 + 0x100 * i, 0x100) if kind == 'windows' else reader.openbin(['/a.txt', '/d/b.bin'][i]))
            ts = [threading.Thread(target=opener, args=(i,), name=f'opener-{i}') for i in range(2)]
            for t in ts:
                t.start()
            for t in ts:
                t.join(5)
        finally:
            F.Lock = saved
        case = dict(kind='open-race', handles=kind)
        ctx.case(case)
        ctx.stat('open_race_probes')
        if None in handles:
            ctx.diff('oracle', f'open-race:{kind}', case, 'two handles', 'opening did not finish', f'{kind}: two threads opening their first handle on one file at the same time did not both finish')
            continue
        h0, h1 = handles
        want0 = (h0.seek(0), h0.read(8))[1]
        h1.seek(0)
        want1 = h1.read(200)[-8:]
        done = threading.Event()

        def other():
            h1.seek(192)
            state['got1'] = h1.read(8)
            done.set()

        def tear():
            t = threading.Thread(target=other, name='other')
            t.start()
            done.wait(0.4)            # with one shared lock the other thread waits for us instead, and this times out
            state['t'] = t
        h0.seek(0)
        state['tear'] = tear

        def first():
            state['got0'] = h0.read(8)
        t0 = threading.Thread(target=first, name='opener-0')
        t0.start()
        t0.join(5)
        if state.get('t'):
            state['t'].join(5)
        if state.get('got0') != want0 or state.get('got1') != want1:
            ctx.diff('oracle', f'open-race:{kind}', case, want0.hex(), (state.get('got0') or b'').hex(),
                     f'{kind}: two handles opened by two threads at the same time (each finding no lock registered for the file yet) do not exclude '
                     f'each other: a read through one was torn by a seek+read through the other')
        if reader is not None:
            reader.close()


def refused_then_other_probe(ctx):
    """no schedule deadlocks, also not the one in which an operation of one handle is REFUSED by the file underneath (a write through a
    window on a file opened read-only; a read through a crypto wrapper whose keyslot has no key yet): the other handles on that base
    file go on working"""
    import threading
    from pyctr.fileio import SubsectionIO
    from pyctr.crypto.engine import CryptoEngine

    class ReadOnly(io.BytesIO):
        def writable(self):
            return False

        def write(self, b):
            raise io.UnsupportedOperation('write')
    data = bytes((i * 3 + 1) & 0xFF for i in range(0x200))
    for how in ('write-refused', 'key-missing'):
        if how == 'write-refused':
            base = ReadOnly(data)
            first = lambda w=SubsectionIO(base, 0x10, 0x40): w.write(b'xyz')
        else:
            e = CryptoEngine(setup_b9_keys=False)
            base = e.create_ctr_io(0x2C, io.BytesIO(data), 5)           # keyslot 0x2C has no normal key
            first = lambda w=SubsectionIO(base, 0x10, 0x40): w.read(8)
        other = SubsectionIO(base, 0x80, 0x40) if how == 'write-refused' else None
        case = dict(kind='refused-then-other', how=how)
        ctx.case(case)
        ctx.stat('refused_then_other_probes')
        try:
            first()
            refused = False
        except Exception:
            refused = True
        if how == 'key-missing':
            e.set_normal_key(0x2C, bytes(16))
            other = SubsectionIO(base, 0x80, 0x40)
        box = {}

        def go():
            other.seek(1)
            box['got'] = other.read(4)
        t = threading.Thread(target=go, daemon=True)
        t.start()
        t.join(3)
        if t.is_alive() or not refused or len(box.get('got', b'')) != 4:
            ctx.diff('oracle', f'deadlock:refused-then-other:{how}', case, 'the other handle reads on', 'blocked for ever' if t.is_alive() else repr(box.get('got')),
                     f'after an operation of one window was refused by the file underneath ({how}), another window on the same file never returns (the shared lock was not released)')


def instance_text(instances):
    lines = ['(* generated by harness/checks/c15.py: the programs traced from the real code in this run *)',
             'From Coq Require Import List ZArith Bool Arith.', 'Import ListNotations.', 'From Pyctr Require Import Model.Sched.', '']
    names = []
    for k, (case, tr, guarded) in enumerate(instances):
        lk = ' '.join(f'| {v}%nat => {l}%nat' for v, l in sorted(tr['lockof'].items()))
        lines.append(f'(* {case["kind"]} handles {case["sel"]} *)')
        lines.append(f'Definition lockof_{k} (v : nat) : nat := match v with {lk} | _ => 0%nat end.')
        lines.append(f'Definition progs_{k} : list (list action) := [' + ';\n    '.join(SM.coq_prog(p) for p in tr['progs']) + '].')
        lines.append(f'Lemma guarded_{k} : guarded lockof_{k} progs_{k} = {"true" if guarded else "false"}.')
        lines.append('Proof. vm_compute. reflexivity. Qed.')
        names.append((k, guarded))
    lines.append('')
    lines.append('Definition all_guarded : bool := ' + (' && '.join(f'guarded lockof_{k} progs_{k}' for k, g in names) or 'true') + '.')
    return '\n'.join(lines) + '\n'


def props_text(instances):
    lines = ['(* generated: the general theorems instantiated on every traced system of this run *)',
             'From Coq Require Import List ZArith Bool Arith.', 'Import ListNotations.',
             'From Pyctr Require Import Model.Sched Proofs.SchedProofs.', 'From Dyn Require Import C15_instances.', '']
    for k, (case, tr, guarded) in enumerate(instances):
        if not guarded:
            continue
        ro = all(not a.startswith('W') for p in tr['progs'] for a in p)
        lines.append(f'(* {case["kind"]} handles {case["sel"]}: every schedule, every initial position, every file content *)')
        lines.append(f'Theorem C15_inst_{k} : forall s cont sched, let c := run lockof_{k} (init_cfg progs_{k} s cont) sched in')
        lines.append('  (forall t, outS (ths c t) = outP (ths c t)) /\\ (forall f, contS c f = contP c f).')
        lines.append(f'Proof. intros. apply guarded_observations. exact guarded_{k}. Qed.')
        if ro:
            lines.append(f'Theorem C15_inst_{k}_serial : forall s cont sched t, rem (ths (run lockof_{k} (init_cfg progs_{k} s cont) sched) t) = [] ->')
            lines.append(f'  outS (ths (run lockof_{k} (init_cfg progs_{k} s cont) sched) t) = psem cont (nth t progs_{k} []) s (fun _ => 0%Z) 0%Z.')
            lines.append(f'Proof. intros. apply (serial_equivalence lockof_{k} progs_{k} s cont sched guarded_{k}); [vm_compute; reflexivity|assumption]. Qed.')
        lines.append('')
    return '\n'.join(lines) + '\n'


def all_cases(rng, quick):
    cases = []
    for kind, sels in SCENARIOS:
        for sel in sels:
            for rep in range(1 if quick else 3):
                ops = gen_ops(rng, kind, sel)
                # overlapping writes and read-backs: the outcome space is larger and a torn call shows in few of the schedules
                many = kind in ORDER_DEPENDENT
                cases.append(dict(kind=kind, sel=list(sel), ops=ops, seed=rng.randrange(1 << 30), nsched=(60 if many else 3) if quick else (250 if many else 12)))
    return cases


def run(ctx):
    TT.install()
    mr = ModelRunner()
    instances = []
    unguarded = []
    try:
        for case in all_cases(ctx.rng, ctx.tier == 'quick'):
            ctx.case(case)
            try:
                g = run_case(ctx, mr, case, instances)
            except Exception as ex:
                ctx.diff('oracle', f'harness:{case["kind"]}', case, 'scenario runs', pyenv.errname(ex), f'{case["kind"]}{case["sel"]}: {pyenv.errname(ex)}: {ex}')
                continue
            if not g:
                unguarded.append(case)
    finally:
        mr.close()
        TT.uninstall()
    try:
        refused_then_other_probe(ctx)
        open_race_probe(ctx)
    except Exception as ex:
        ctx.diff('oracle', 'harness:open-race', dict(kind='open-race'), 'probe runs', pyenv.errname(ex), f'open-race probe: {pyenv.errname(ex)}: {ex}')
    pyenv.uninstall_fake_boot9()
    proof = prove('C15', [], ['C15_props'], static_deps=['Proofs/SchedProofs.v'],
                  extra_gen=[('C15_instances', instance_text(instances)), ('C15_insts', props_text(instances))])
    if unguarded and proof.ok:
        proof.ok = False
        for case in unguarded[:5]:
            proof.failed.append(('guarded', f'the programs traced for {case["kind"]} handles {case["sel"]} do not pass the discipline: the theorems do not apply to them'))

    def search():
        bad = [d for d in ctx.diffs if d['kind'] == 'oracle']
        return bad[0] if bad else None

    return finish(ctx, proof,
                  'handle pairs / triples of every kind a reader hands out (windows on one file; CTR, DSi-CTR and CBC wrappers; RomFS and ExeFS files; '
                  'NCCH sections, ExeFS / RomFS files, merged two-key ExeFS, FullDecrypted view; CIA contents and nested files; NAND partitions of the '
                  'same and of different key types, raw sections; DISA level-4 readers): programs traced from the real code, discipline decided in Coq, '
                  'and the same threads executed on the real objects under round-robin, serial and random forced schedules (one traced operation per '
                  'turn): bytes vs the serial run, final image vs the serial run, base-file positions vs the extracted model run of the same schedule',
                  TRUSTED, ASSUME, search=search)


def replay(ctx, path):
    with open(path) as f:
        payload = json.load(f)
    case = {k: v for k, v in payload['case'].items() if k != 'schedule'}
    TT.install()
    mr = ModelRunner()
    try:
        run_case(ctx, mr, case)
    finally:
        mr.close()
        TT.uninstall()
    for d in ctx.diffs:
        print('REPRODUCED:', d['what'])
    return 1 if ctx.diffs else 0
