"""C13 -- NAND: each partition is decrypted with the keyslot and counter its type dictates."""
import json
import random

from ..core import Ctx, ModelRunner, prove, finish, hx, zhex
from .. import pyenv, nandcommon as NC, ctrcommon as cc
from ..builders import nand as NB

TRUSTED = [
    'Coq 8.16.1 kernel (coqc); no axioms',
    'hand model coq/Model/Nand.v of NANDNCSDHeader.from_bytes / __bytes__ (table loop, typing, duplicate detection) and of the two counter '
    'inference routines; tied by the correspondence run (extracted model vs the reader on the same header / blocks)',
    'partition views are windows on CTR wrappers over the whole image: the read theorem composes C01 (coq/Proofs/CtrProofs.v, TwlProofs.v) at '
    'absolute offsets; AES and SHA are uninterpreted (inference needs only D(E(b)) = b)',
    'independent builder harness/builders/nand.py (OTP key schedule, CID counters, per-type encryption, MBRs, sparse image) = ground truth; '
    'PyCryptodome AES-ECB/CBC, hashlib',
]
ASSUME = [
    'counter + image_size/16 < 2^128 (fails with probability 2^-100 for a hashed CID)',
    'the OTP key schedule is compared with the independent derivation (oracle), not proved',
    'FAT views (open_ctr_fat / open_twl_fat) are pyfatfs on top of the partition views and are not exercised',
]


def rand_reads(rng, size, k):
    out = []
    for _ in range(k):
        off = rng.choice([0, 1, 0x1BE, 0x1F0, rng.randrange(0, max(1, size)), max(0, size - rng.randrange(1, 40)), rng.randrange(0, max(1, size)) & ~15])
        n = rng.choice([1, 15, 16, 17, 0x42, 0x200, rng.randrange(1, 300)])
        out.append((min(off, size), n))
    return out


def check_view(ctx, case, what, fh, img, spec, kind, abs_off, size, rng, k=6):
    for off, n in rand_reads(rng, size, k):
        try:
            fh.seek(off)
            got = fh.read(n)
        except Exception as ex:
            got = pyenv.errname(ex)
        want = NB.expected_plain(img, spec, kind, abs_off + off, max(0, min(n, size - off)))
        ctx.stat('reads')
        if got != want:
            ctx.diff('oracle', f'read:{what.split("#")[0]}:{kind}', dict(case, view=what, off=off, n=n), want.hex()[:64], (got.hex() if isinstance(got, bytes) else got)[:64],
                     f'{what} ({kind}) read({n}) at {off:#x}: not the partition plaintext')
            return False
    return True


def run_case(ctx, mr, case):
    from pyctr.type.nand import NAND, NANDSection, NANDNCSDHeader
    rng = random.Random(case['dseed'] ^ 0x5A5A)
    img, info, spec, kw, truth = NC.materialise(case)
    ctx.stat('layout_' + case['layout'])
    ctx.stat('cid_' + case['cid_mode'])
    ctx.stat('otp_' + case['otp_mode'])
    if 'otp' in kw and rng.random() < 0.4:
        # an engine that has already served another console, and the OTP of this one given explicitly: the keys are those of the OTP
        # given NOW (without an explicit OTP a keyed engine is taken as it is, by design)
        from pyctr.crypto.engine import CryptoEngine
        eng = CryptoEngine(dev=case['dev'])
        other = NB.make_otp(random.Random(case['dseed'] ^ 0x77))
        try:
            eng.setup_keys_from_otp(other)
        except Exception as ex:
            ctx.diff('oracle', 'otp-setup-raises', case, 'keys', pyenv.errname(ex), 'setup_keys_from_otp raised on a valid decrypted OTP')
        kw = dict(kw, crypto=eng)
        kw.pop('dev', None)
        ctx.stat('reused_engines')
    try:
        r = NAND(img, **kw)
    except Exception as ex:
        ctx.diff('oracle', 'open-raises:' + pyenv.errname(ex), case, 'a reader', pyenv.errname(ex) + ': ' + str(ex)[:100], 'well-formed NAND image rejected: ' + pyenv.errname(ex) + ': ' + str(ex)[:100])
        return
    try:
        # counters
        if r.counter != truth['ctr'] or r.counter_twl != truth['ctr_twl']:
            ctx.diff('oracle', 'counter:' + case['cid_mode'], case, f'{truth["ctr"]:x}/{truth["ctr_twl"]:x}', f'{r.counter or 0:x}/{r.counter_twl or 0:x}',
                     f'counters differ from the CID-derived ones (CID {case["cid_mode"]})')
        # keys
        for slot, key in truth['keys'].items():
            if r._crypto.key_normal.get(slot) != key:
                ctx.diff('oracle', f'key:{slot}', case, key.hex(), (r._crypto.key_normal.get(slot) or b'').hex(), f'normal key of slot {slot:#x} differs from the OTP key schedule')
        # header codec
        if bytes(r.header) != info['header']:
            ctx.diff('oracle', 'header-bytes', case, info['header'].hex()[0x200:0x280], bytes(r.header).hex()[0x200:0x280], 'bytes(header) differs from the original 512 bytes')
        # model of the header
        out = mr.ask('nandhdr ' + hx(info['header']))
        impl = []
        for k, p in r.header.partition_table.items():
            if isinstance(k, int) and int(k) >= 0 or int(k) in (-11, -12, -13, -14, -15):
                impl.append((int(k), int(p.fs_type), int(p.encryption_type), p.offset, p.size, p.base_file or '-'))
        impl_s = ' '.join('%d,%d,%d,%x,%x,%s' % t for t in sorted(impl))
        if out != impl_s + ' | ' + hx(bytes(r.header)):
            ctx.diff('corr', 'nandhdr-model', case, out[:300], (impl_s + ' | ...')[:300], 'NCSD NAND header: Coq model and reader differ')
        if truth.get('wrap_at') is not None:
            # one read across the place where the low half of the counter runs out
            X = truth['wrap_at']
            ctx.stat('counter_carry_cases')
            for (start, end, kind, idx) in info['regions']:
                if start <= X - 24 and X + 40 <= end and kind in ('ctr_old', 'ctr_new'):
                    fh = r.open_raw_section(idx)
                    fh.seek(X - 24 - start)
                    got = fh.read(64)
                    want = NB.expected_plain(img, spec, kind, X - 24, 64)
                    if got != want:
                        ctx.diff('oracle', 'read:counter-carry:' + kind, dict(case, off=X - 24 - start), want.hex()[:64], got.hex()[:64],
                                 f'section{idx} ({kind}): a read across the block where the low 64 bits of the counter wrap is not the partition plaintext')
        # every NCSD partition view, by index and by alias
        for (start, end, kind, idx) in info['regions']:
            fh = r.open_raw_section(idx)
            check_view(ctx, case, f'section{idx}', fh, img, spec, kind, start, end - start, rng, 4)
        for sec, want_kind in ((NANDSection.TWLNAND, 'twl'), (NANDSection.CTRNAND, None), (NANDSection.AGBSAVE, 'agb'), (NANDSection.FIRM0, 'firm'),
                               (NANDSection.FIRM1, 'firm'), (NANDSection.Header, 'raw'), (NANDSection.MinSize, 'raw')):
            try:
                p = r.header.partition_table[sec]
            except KeyError:
                continue
            kind = None if want_kind == 'raw' else (p.base_file if want_kind is None else want_kind)
            if want_kind not in (None, 'raw') and p.base_file != want_kind:
                ctx.diff('oracle', f'typing:{int(sec)}', case, want_kind, p.base_file, f'section {sec!r} typed {p.base_file}')
            check_view(ctx, case, f'alias{int(sec)}', r.open_raw_section(sec), img, spec, kind, p.offset, p.size, rng, 2)
        # MBR sub-partitions
        twl = next((x for x in info['regions'] if x[2] == 'twl'), None)
        ctrp = next((x for x in info['regions'] if x[2] in ('ctr_old', 'ctr_new')), None)
        if [tuple(x) for x in r.twl_partitions] != [tuple(x) for x in info['twl_parts']]:
            ctx.diff('oracle', 'twl-mbr', case, info['twl_parts'], r.twl_partitions, 'TWL MBR sub-partitions differ')
        if [tuple(x) for x in r.ctr_partitions] != [tuple(x) for x in info['ctr_parts']]:
            ctx.diff('oracle', 'ctr-mbr', case, info['ctr_parts'], r.ctr_partitions, 'CTR MBR sub-partitions differ')
        views = []
        for i, (o, s) in enumerate(info['twl_parts']):
            if s and twl[0] + o + s <= twl[1]:
                views.append((f'twlpart{i}', r.open_twl_partition(i), 'twl', twl[0] + o, s))
        for i, (o, s) in enumerate(info['ctr_parts']):
            if s and ctrp[0] + o + s <= ctrp[1]:
                views.append((f'ctrpart{i}', r.open_ctr_partition(i), ctrp[2], ctrp[0] + o, s))
        for what, fh, kind, a, s in views:
            check_view(ctx, case, what, fh, img, spec, kind, a, s, rng, 4)
        # writes through views, in place
        for what, fh, kind, a, s in views[:3]:
            for _ in range(2):
                off = rng.choice([0, 1, rng.randrange(0, s), max(0, s - rng.randrange(1, 30))])
                data = pyenv.rbytes(rng, rng.choice([1, 16, 17, 40, 0x200]))
                before = {x: img.peek(x, 0x40) for x in (max(0, a + off - 0x40), a + off + len(data))}
                img.write_log.clear()
                try:
                    fh.seek(off)
                    k = fh.write(data)
                except Exception as ex:
                    ctx.diff('oracle', f'write-raises:{what}', dict(case, view=what, off=off), 'bytes stored', pyenv.errname(ex), f'{what}: write raises {pyenv.errname(ex)}: {ex}')
                    continue
                fit = max(0, min(len(data), s - off))
                ctx.stat('writes')
                if k != fit:
                    ctx.diff('oracle', f'write-count:{what[:7]}', dict(case, view=what, off=off, n=len(data)), fit, k, f'{what}: write of {len(data)} at {off:#x} of {s:#x} returns {k}')
                    continue
                if NB.expected_plain(img, spec, kind, a + off, fit) != data[:fit]:
                    ctx.diff('oracle', f'write-content:{what[:7]}', dict(case, view=what, off=off, n=len(data)), data[:16].hex(), '?', f'{what}: image does not hold the encryption of the written data in place')
                for x, b in before.items():
                    lo, hi = x, x + 0x40
                    cur = img.peek(x, 0x40)
                    for j in range(len(cur)):
                        inside = a + off <= lo + j < a + off + fit
                        if not inside and cur[j] != b[j]:
                            ctx.diff('oracle', f'write-frame:{what[:7]}', dict(case, view=what, off=off, n=len(data)), 'unchanged', f'byte {lo + j:#x} changed', f'{what}: a byte outside the written range changed')
                            break
                fh.seek(off)
                if fh.read(fit) != data[:fit]:
                    ctx.diff('oracle', f'write-readback:{what[:7]}', dict(case, view=what, off=off), data[:16].hex(), '?', f'{what}: written data not read back in the same session')
        r.close()
        # re-open: same plaintext everywhere sampled
        if views:
            img.seek(0)
            try:
                r2 = NAND(img, **kw)
            except Exception as ex:
                ctx.diff('oracle', 'reopen-raises', case, 'a reader', pyenv.errname(ex), f're-opening the image after writes through views raises {pyenv.errname(ex)}: {ex}')
                return
            try:
                for what, fh, kind, a, s in views[:3]:
                    fh2 = r2.open_twl_partition(int(what[-1])) if what.startswith('twl') else r2.open_ctr_partition(int(what[-1]))
                    check_view(ctx, case, what + '#reopen', fh2, img, spec, kind, a, s, rng, 3)
                    # the image as a file opened read-only: a write through a view is refused by the file underneath, and the refused
                    # call leaves the view where it was -- the read that follows returns the plaintext at the position before the write
                    img._writable = False
                    try:
                        off = rng.choice([0, 1, rng.randrange(0, s), max(0, s - 40)])
                        fh2.seek(off)
                        try:
                            fh2.write(pyenv.rbytes(rng, rng.choice([1, 16, 17, 40])))
                            ctx.diff('oracle', f'write-accepted:{what[:7]}', dict(case, view=what, off=off), 'refused', 'accepted', f'{what}: write to a read-only image accepted')
                        except Exception:
                            pass
                        pos = fh2.tell()
                        got = fh2.read(24)
                        ctx.stat('refused_writes')
                        if pos != off or got != NB.expected_plain(img, spec, kind, a + off, min(24, s - off)):
                            ctx.diff('oracle', f'write-refused-moved:{what[:7]}', dict(case, view=what, off=off), off, pos,
                                     f'{what}: after a refused write at {off:#x} the view stands at {pos:#x} / the next read is not the plaintext there')
                    finally:
                        img._writable = True
            finally:
                r2.close()
    finally:
        r.close()
    # counter inference model (only meaningful when the CID was withheld)
    if case['cid_mode'] == 'withheld':
        twl = next((x for x in info['regions'] if x[2] == 'twl'), None)
        ctrp = next((x for x in info['regions'] if x[2] in ('ctr_old', 'ctr_new')), None)
        key = truth['keys'][NB.SLOT_OF[ctrp[2]]]
        out = mr.ask('nandinfer ctr %s %s %s %s' % (key.hex(), hx(img.peek(ctrp[0] + 0x1D0, 16)), hx(img.peek(ctrp[0] + 0x1E0, 16)), zhex((ctrp[0] + 0x1D0) >> 4)))
        if out != zhex(truth['ctr']):
            ctx.diff('corr', 'infer-ctr-model', case, zhex(truth['ctr']), out, 'CTR counter inference: Coq model differs from the CID-derived counter')
        out = mr.ask('nandinfer twl %s %s %s %s' % (truth['keys'][3].hex(), hx(img.peek(twl[0] + 0x1C0, 16)), hx(img.peek(twl[0] + 0x1D0, 16)), zhex((twl[0] + 0x1C0) >> 4)))
        if out != zhex(truth['ctr_twl']):
            ctx.diff('corr', 'infer-twl-model', case, zhex(truth['ctr_twl']), out, 'TWL counter inference: Coq model differs from the CID-derived counter')
        ctx.stat('inferences')


def typing_sweep(ctx, mr):
    """every (fs type, crypt type) pair through from_bytes vs the model's table"""
    from pyctr.type.nand import NANDNCSDHeader
    for fs in range(0, 7):
        for cr in range(0, 6):
            table = [(0, 0, 0, 0)] * 8
            table[3] = (fs, cr, 0x100, 0x10)
            hdr = NB.header_bytes(bytes(0x100), 0x200000, table, bytes(94), bytes(0x42))
            case = dict(typing=[fs, cr])
            ctx.case(case)
            h = NANDNCSDHeader.from_bytes(hdr)
            p = h.partition_table.get(3)
            impl = (p.base_file or '-') if p else 'absent'
            want = NB.kind_of(fs, cr) or '-' if fs else 'absent'
            if impl != want:
                ctx.diff('oracle', f'typing:{fs}:{cr}', case, want, impl, f'partition with fs type {fs} / crypt type {cr} typed {impl}, expected {want}')
            out = mr.ask('nandhdr ' + hx(hdr))
            m = [t for t in out.split(' | ')[0].split(' ') if t.startswith('3,')]
            model = m[0].split(',')[5] if m else 'absent'
            if model != impl:
                ctx.diff('corr', f'typing-model:{fs}:{cr}', case, model, impl, 'typing table: model and reader differ')
            ctx.stat('typing_pairs')


def missing_partition_case(ctx, case):
    """a partition table WITHOUT a CTRNAND (or without a TWL) partition -- "any NCSD partition table": the image opens, and the partitions
    that are there are served"""
    from pyctr.type.nand import NAND
    img, info, spec, kw, truth = NC.materialise(case['base'])
    drop = case['drop']
    slot = next((i for i, (fs, cr, o, sz) in enumerate(spec['table']) if (NB.kind_of(fs, cr) or '').startswith(drop)), None)
    if slot is None:
        return
    img.poke(0x110 + slot, b'\0')
    img.poke(0x118 + slot, b'\0')
    img.poke(0x120 + 8 * slot, bytes(8))
    ctx.stat('tables_without_' + drop)
    rng = random.Random(case['base']['dseed'])
    import logging
    logging.disable(logging.ERROR)          # the reader logs that the partition is missing; that is expected here
    try:
        # (by default the reader insists on both partitions; auto_raise_exceptions=False is the documented way to open such an image)
        r = NAND(img, auto_raise_exceptions=False, **kw)
    except Exception as ex:
        logging.disable(logging.NOTSET)
        ctx.diff('oracle', 'open-raises:no-' + drop, case, 'a reader', pyenv.errname(ex) + ': ' + str(ex)[:80],
                 f'NAND image whose partition table has no {drop.upper()} partition cannot be opened: {pyenv.errname(ex)}: {str(ex)[:60]}')
        return
    try:
        for (start, end, kind, idx) in info['regions']:
            if idx != slot and kind in ('firm', 'agb'):
                check_view(ctx, case, f'section{idx}', r.open_raw_section(idx), img, spec, kind, start, end - start, rng, 2)
    finally:
        r.close()
        logging.disable(logging.NOTSET)


def run_cases(ctx, cases, sweep=True):
    mr = ModelRunner(oracles=dict(aes_enc=cc.aes_enc, aes_dec=cc.aes_dec))
    try:
        if sweep:
            typing_sweep(ctx, mr)
        for case in cases:
            ctx.case(case)
            if 'drop' in case:
                missing_partition_case(ctx, case)
            else:
                run_case(ctx, mr, case)
    finally:
        mr.close()
        pyenv.uninstall_fake_boot9()


def run(ctx):
    proof = prove('C13', [], ['C13_props'], static_deps=['Proofs/NandProofs.v', 'Proofs/CtrProofs.v', 'Proofs/TwlProofs.v'])
    cases = [NC.gen_case(ctx.rng) for _ in range(ctx.n(40, 800))]
    # directed: CTRNAND as table entry 0 (first with whatever CID mode comes up, then until one has the CID withheld)
    cases.append(NC.gen_case(ctx.rng, force=dict(ctr_slot0=True)))
    for drop in ('ctr', 'twl', 'ctr', 'twl'):
        cases.append(dict(drop=drop, base=NC.gen_case(ctx.rng, force=dict(cid_mode='given', otp_mode='dec', essential=False, bonus=False))))
    for _ in range(40):
        c0 = NC.gen_case(ctx.rng, force=dict(ctr_slot0=True))
        if c0['cid_mode'] == 'withheld':
            cases.append(c0)
            break
    run_cases(ctx, cases)

    def search():
        c2 = Ctx('C13', 'thorough', ctx.seed + 1)
        run_cases(c2, [NC.gen_case(c2.rng) for _ in range(150)], sweep=True)
        bad = [d for d in c2.diffs if d['kind'] == 'oracle']
        return bad[0] if bad else None

    return finish(ctx, proof,
                  'synthetic consoles (random bootROM key area, OTP with valid hash given decrypted / encrypted / inside essential.exefs, retail and dev '
                  'key sets, random CID given / in essential.exefs / withheld) x NAND images on a sparse virtual file (Old and New 3DS sizes and CTR '
                  'types; retail, shuffled and odd partition tables incl. unknown fs types and a third FIRM; standard and non-standard MBRs; GM9 bonus '
                  'volume): counters, normal keys of slots 3-7, bytes(header), every NCSD partition by index and alias, every MBR sub-partition at '
                  'random offsets vs an independent decryption of the image; in-place writes (count, ciphertext, frame, read-back) and re-open; '
                  'all (fs type, crypt type) pairs through the typing table; header parse and counter inference vs the extracted Coq model',
                  TRUSTED, ASSUME, search=search)


def replay(ctx, path):
    with open(path) as f:
        payload = json.load(f)
    case = {k: v for k, v in payload['case'].items() if k not in ('view', 'off', 'n')}
    if 'typing' in case:
        run_cases(ctx, [], sweep=True)
    else:
        run_cases(ctx, [case], sweep=False)
    for d in ctx.diffs:
        print('REPRODUCED:', d['what'], 'expected', d['expected'], 'observed', d['observed'])
    return 1 if ctx.diffs else 0
