"""C16 -- closing is complete, contained, idempotent and respects file ownership."""
import json
import random

from ..core import Ctx, ModelRunner, prove, finish
from .. import pyenv, closecommon as CC, closegraph as CG

TRUSTED = [
    'Coq 8.16.1 kernel (coqc); no axioms',
    'graph semantics coq/Model/Close.v (closed set, closure of close(), closed-check decorators) with general theorems in '
    'coq/Proofs/CloseProofs.v over ALL graphs and ALL operation histories; per-configuration facts (C16_instances.v) are decided by '
    'vm_compute on the graph read off the live objects of this run',
    'harness/closegraph.py: per-class rules reading guard / under / closes edges off live pyctr objects (translator of this property); '
    'tied by the correspondence run: extracted Close.run vs the real objects under close/use histories',
    'harness/closecommon.py: the configuration matrix (reader kind x source kind x closefd) and one handle of every kind per reader',
]
ASSUME = [
    'handles are opened before the history starts (opening after close is not part of the property); garbage collection of handles is not modelled',
    'MemoryFS file objects keep returning data after close() (PyFilesystem2 behaviour): CDN / SD-title readers are driven over OS directories',
    'use = read(1) after the position was set to 0, read(0), tell(), seek(0); readable()/writable()/seekable() are not counted as I/O calls returning data',
    'NAND is opened from a file object only (its image is a 0x3AF00000-byte sparse virtual file); CDN / SD-title readers have no closefd parameter',
]


def configs():
    out = []
    for k in CC.READERS + CC.WRAPPERS:
        for s in CC.SOURCES:
            for c in CC.CLOSEFD:
                out.append((k, s, c))
    return out


def roles(sc):
    """ordered names: index 0 = reader, then nested readers, then handles; plus the leaf file"""
    names = ['reader'] + ['nested:' + n for n in sc.nested] + ['handle:' + n for n in sc.handles]
    objs = [sc.reader] + list(sc.nested.values()) + list(sc.handles.values())
    return names, objs


def parent_chain(sc):
    """handle name -> list of reader names whose closing must make the handle raise (spec side, from how the scenario was built)"""
    chain = {}
    for h in sc.handles:
        # handles of a nested reader are named <nested>_<...> (c0_exefs_icon belongs to c0 and to c0_exefs)
        chain[h] = ['reader'] + ['nested:' + n for n in sc.nested if h.startswith(n + '_')]
    return chain


LAYER_UNDER = {'w_ctr_win': ['handle:window'], 'w_merge': ['handle:piece_a', 'handle:piece_b']}


def expect(kind, closefd, hn, closed_names, chain):
    """what the property fixes for a call on handle hn: 'VE', 'ok' or None (not fixed by the property)"""
    if kind in CC.WRAPPERS:
        wrapper_closed = 'reader' in closed_names
        if hn == 'handle:wrapper':
            if wrapper_closed:
                return 'VE'
            return None if any(x in closed_names for x in LAYER_UNDER.get(kind, [])) else 'ok'     # closing the layer under a wrapper
        if hn in closed_names:
            return None
        if hn in LAYER_UNDER.get(kind, []):
            return 'VE' if (wrapper_closed and closefd is True) else 'ok'
        return 'ok'                                   # sibling window
    if any(c in closed_names for c in chain[hn[7:]]):
        return 'VE'
    if hn in closed_names:
        return None                                   # the property does not say what a handle closed on its own answers
    return 'ok'


def expected_file_closed(kind, source, closefd, reader_closed):
    if not reader_closed:
        return False
    if kind in CC.WRAPPERS:
        return closefd is True and kind not in ('w_sub', 'w_closewrap', 'w_ctr_win', 'w_merge')
    if source == 'obj':
        return closefd is True
    return closefd is not False


def run_history(ctx, mr, cfg, closes, nodes_cache):
    """one fresh scenario; after each close sweep all uses; compare with the model and with the property"""
    kind, source, closefd = cfg
    sc = CC.build(kind, source, closefd)
    if sc.error:
        if sc.error != 'n/a':
            ctx.diff('oracle', 'open-raises', dict(cfg=list(cfg)), 'scenario opens', sc.error, f'{kind}/{source}/closefd={closefd}: cannot open: {sc.error}')
        sc.cleanup()
        return None
    try:
        names, objs = roles(sc)
        leaf = sc.base if sc.base is not None else sc.own
        nodes, index, allobjs = CG.extract(objs + ([leaf] if leaf is not None else []))
        idx = {n: index[id(o)] for n, o in zip(names, objs)}
        leaf_i = index[id(leaf)] if leaf is not None else None
        handles = [n for n in names if n.startswith('handle:')]
        chain = parent_chain(sc)
        ops = []
        observed = []
        closed_names = set()
        caseinfo = dict(cfg=[kind, source, closefd], closes=closes)

        sweep_no = [0]

        def sweep():
            sweep_no[0] += 1
            for hn in handles:
                h = objs[names.index(hn)]
                # no call of ours precedes the uses, and the order of the uses rotates: a closed-check that lets the FIRST call after a
                # close through must not be hidden by a positioning call
                k = (sweep_no[0] + handles.index(hn)) % len(CC.USES)
                res = {u: CC.use(h, u) for u in CC.USES[k:] + CC.USES[:k]}
                # model ops: tell/seek0 shallow, read1 deep
                ops.append(('s', idx[hn]))
                ops.append(('d', idx[hn]))
                observed.append((hn, res))
                # property oracle
                want = expect(kind, closefd, hn, closed_names, chain)
                if want == 'VE' and kind in ('w_ctr', 'w_twl', 'w_cbc', 'w_ctr_win') and hn == 'handle:wrapper':
                    size0 = len(sc.base.getvalue()) if not sc.base.closed else None
                    res = dict(res, **{u: CC.use(h, u) for u in CC.CLOSED_ONLY_USES})
                    if size0 is not None and not sc.base.closed and len(sc.base.getvalue()) != size0:
                        ctx.diff('oracle', f'use-after-close:{kind}:{hn}:truncate-reached-file', dict(caseinfo, handle=hn, use='truncate'), size0, len(sc.base.getvalue()),
                                 f'{kind}/{source}/closefd={closefd}: truncate() on the closed wrapper changed the caller\'s file')
                for u, r in res.items():
                    if want == 'VE' and r != 'VE':
                        ctx.diff('oracle', f'use-after-close:{kind}:{hn}:{u}', dict(caseinfo, handle=hn, use=u), 'ValueError', r,
                                 f'{kind}/{source}/closefd={closefd}: after closing {sorted(closed_names)} {hn}.{u} gives {r} instead of ValueError')
                    if want == 'ok' and r != 'ok':
                        ctx.diff('oracle', f'close-not-contained:{kind}:{hn}:{u}', dict(caseinfo, handle=hn, use=u), 'ok', r,
                                 f'{kind}/{source}/closefd={closefd}: after closing only {sorted(closed_names)} {hn}.{u} gives {r}')
            if leaf is not None:
                exp = expected_file_closed(kind, source, closefd, 'reader' in closed_names)
                if kind in CC.WRAPPERS and kind in ('w_merge',):
                    exp = None           # pieces, not the base, are what a merger owns
                if exp is not None and bool(leaf.closed) != exp:
                    who = 'caller-supplied file object' if sc.base is not None else 'file opened by pyctr'
                    ctx.diff('oracle', f'ownership:{kind}:{source}:{closefd}', caseinfo, f'closed={exp}', f'closed={leaf.closed}',
                             f'{kind}/{source}/closefd={closefd}: {who} closed={leaf.closed} after closing {sorted(closed_names)}')

        sweep()
        for c in closes:
            if c not in names:
                continue
            o = objs[names.index(c)]
            try:
                o.close()
            except Exception as ex:
                ctx.diff('oracle', f'close-raises:{kind}:{c}', dict(caseinfo, closing=c), 'no exception', pyenv.errname(ex),
                         f'{kind}/{source}/closefd={closefd}: closing {c} after {sorted(closed_names)} raises {pyenv.errname(ex)}: {ex}')
            closed_names.add(c)
            closed_names.update(n for n, x in zip(names, objs) if x is o)       # the same object under two names (wrapper scenarios)
            ops.append(('c', idx[c]))
            sweep()
        # model run
        line = 'close ' + CG.encode(nodes) + ' ' + (','.join(k + str(i) for k, i in ops) or '-')
        out = mr.ask(line)
        outs, flags = out.split(' ')
        uses = [x for x in outs if x != '-']
        k = 0
        for hn, res in observed:
            sh, dp = uses[k] == '1', uses[k + 1] == '1'
            k += 2
            impl_sh = (res['tell'] == 'VE', res['seek0'] == 'VE')
            if impl_sh != (sh, sh) or (res['read1'] == 'VE') != dp or (res['read0'] == 'VE') not in (sh, dp):
                ctx.diff('corr', f'model-use:{kind}:{hn}', dict(caseinfo, handle=hn), f'shallow={sh} deep={dp}', json.dumps(res),
                         f'{kind}/{source}/closefd={closefd}: closed-state model and implementation differ on {hn} after {closes}')
                break
        if leaf_i is not None and (flags[leaf_i] == '1') != bool(leaf.closed):
            ctx.diff('corr', f'model-file:{kind}:{source}:{closefd}', caseinfo, f'closed={flags[leaf_i] == "1"}', f'closed={leaf.closed}',
                     f'{kind}/{source}/closefd={closefd}: model and implementation differ on whether the file is closed after {closes}')
        ctx.stat('histories')
        ctx.stat('kind_' + kind)
        return dict(nodes=nodes, idx=idx, leaf=leaf_i, names=names)
    finally:
        sc.cleanup()


def instance_text(instances):
    """Coq file: the graphs of this run and the decidable facts the general theorems need"""
    lines = ['(* generated by harness/checks/c16.py from the live objects of this run *)',
             'From Coq Require Import List Arith Bool.', 'Import ListNotations.', 'From Pyctr Require Import Model.Close.', '',
             'Record inst := mkInst { i_g : graph; i_reader : nat; i_handles : list nat; i_closables : list nat; i_file : option nat; i_owns : bool;',
             '                        i_groups : list (nat * list nat) }.', '',
             'Definition inst_ok (x : inst) : bool :=',
             '  covers_all (i_g x) (i_reader x) (i_handles x)',
             '  && forallb (fun p => covers_all (i_g x) (fst p) (snd p)) (i_groups x)',
             '  && forallb (fun h => contained (i_g x) h (i_handles x ++ [i_reader x])) (i_handles x)',
             '  && match i_file x with',
             '     | None => true',
             '     | Some f => Bool.eqb (closes_file (i_g x) (i_reader x) f) (i_owns x)',
             '                 && forallb (fun a => Nat.eqb a (i_reader x) || negb (closes_file (i_g x) a f)) (i_closables x)',
             '     end.', '']
    names = []
    for n, (cfg, info, owns, groups) in enumerate(instances):
        nm = f'inst_{n}'
        names.append(nm)
        idx = info['idx']
        inames = info['names'] if cfg[0] not in CC.WRAPPERS else ['reader', 'handle:wrapper']    # a wrapper is its own only handle
        handles = [idx[x] for x in inames if x.startswith('handle:')]
        closables = [idx[x] for x in inames]
        f = 'None' if info['leaf'] is None or owns is None else f'(Some {info["leaf"]})'
        gl = '[' + '; '.join(f'({a}, [' + '; '.join(str(h) for h in hs) + '])' for a, hs in groups) + ']'
        lines.append(f'(* {cfg[0]} / {cfg[1]} / closefd={cfg[2]} *)')
        lines.append(f'Definition {nm} : inst := mkInst\n    {CG.coq_graph(info["nodes"])}\n    {idx["reader"]} [' + '; '.join(map(str, handles)) + '] ['
                     + '; '.join(map(str, closables)) + f'] {f} {"true" if owns else "false"} {gl}.')
    lines.append('')
    lines.append('Definition instances : list inst := [' + '; '.join(names) + '].')
    lines.append('Eval vm_compute in map inst_ok instances.')
    lines.append('Lemma instances_ok : forallb inst_ok instances = true.')
    lines.append('Proof. vm_compute. reflexivity. Qed.')
    return '\n'.join(lines) + '\n'


def nested_groups(info, sc_names):
    """(nested reader node, its handles' nodes) -- closing a nested reader must silence its own handles"""
    idx = info['idx']
    groups = []
    for n in sc_names:
        if n.startswith('nested:'):
            pre = n[7:] + '_'
            hs = [idx[h] for h in sc_names if h.startswith('handle:' + pre)]
            if hs:
                groups.append((idx[n], hs))
    return groups


def histories_for(rng, names, quick):
    closables = [n for n in names]
    hs = [['reader'], ['reader', 'reader']]
    for c in closables[1:]:
        hs.append([c, 'reader', c, 'reader'])
    for _ in range(3 if quick else 20):
        k = rng.randrange(2, 6)
        hs.append([rng.choice(closables) for _ in range(k)])
    if quick:
        fixed = hs[:2]
        rest = hs[2:]
        rng.shuffle(rest)
        hs = fixed + rest[:6]
    return hs


def failed_constructions(ctx):
    """a constructor that raises has not taken the caller's file over: a file object handed in stays open and usable"""
    import io
    im = CC.images()
    from pyctr.type.ncch import NCCHReader
    from pyctr.type.cia import CIAReader
    from pyctr.type.cci import CCIReader
    from pyctr.type.exefs import ExeFSReader
    from pyctr.type.romfs import RomFSReader
    from pyctr.type.save.disa import DISA
    from pyctr.type.save.diff import DIFF
    readers = [('ncch', NCCHReader, im['ncch']), ('cia', CIAReader, im['cia']), ('cci', CCIReader, im['cci']), ('disa', DISA, im['disa']),
               ('diff', DIFF, im['diff']), ('exefs', ExeFSReader, im['exefs']), ('romfs', RomFSReader, im['romfs'])]
    for why in ('no-bootrom', 'garbage'):
        pyenv.uninstall_fake_boot9()          # no boot ROM keys anywhere: the readers that need a crypto engine cannot make one
        for name, cls, image in readers:
            data = image if why == 'no-bootrom' else bytes(b ^ 0x5A for b in image[:0x400]) + image[0x400:]
            f = io.BytesIO(data)
            case = dict(cfg=[name, 'obj', None], construction=why)
            ctx.case(case)
            try:
                r = cls(f)
            except Exception as ex:
                ctx.stat('failed_constructions')
                usable = not f.closed
                if usable:
                    try:
                        f.seek(0)
                        f.read(1)
                    except Exception:
                        usable = False
                if not usable:
                    ctx.diff('oracle', f'ctor-failure-closes:{name}', case, 'the file object stays open', 'closed',
                             f'{cls.__name__}(file object) raised {pyenv.errname(ex)} and left the caller\'s file object closed')
            else:
                r.close()


def run(ctx):
    failed_constructions(ctx)
    mr = ModelRunner()
    instances = []
    quick = ctx.tier == 'quick'
    try:
        for cfg in configs():
            kind, source, closefd = cfg
            ctx.case(dict(cfg=list(cfg)))
            info = run_history(ctx, mr, cfg, [], None)
            if info is None:
                continue
            owns = expected_file_closed(kind, source, closefd, True)
            if kind == 'w_merge':
                owns = None
            instances.append((cfg, info, owns, nested_groups(info, info['names'])))
            for h in histories_for(ctx.rng, info['names'], quick):
                ctx.case(dict(cfg=list(cfg), closes=h))
                run_history(ctx, mr, cfg, h, None)
    finally:
        mr.close()
        pyenv.uninstall_fake_boot9()
    ctx.stat('configurations', len(instances))
    proof = prove('C16', [], ['C16_props'], static_deps=['Proofs/CloseProofs.v'], extra_gen=[('C16_instances', instance_text(instances))])

    def search():
        bad = [d for d in ctx.diffs if d['kind'] == 'oracle']
        return bad[0] if bad else None

    return finish(ctx, proof,
                  'every configuration (11 reader kinds incl. NAND + 7 wrapper kinds) x (caller-supplied object, OS path, filesystem + path) x closefd in '
                  '(default, True, False): one handle of every kind the reader hands out, incl. handles of nested readers; close histories '
                  '(reader; reader twice; each handle / nested reader then reader, each twice; random orders) with a sweep of read(1)/read(0)/tell/seek(0) '
                  'on every handle after each close; use-after-close, containment, ownership and close-raises decided against the property directly, '
                  'and against the extracted Coq model (correspondence)',
                  TRUSTED, ASSUME, search=search)


def replay(ctx, path):
    with open(path) as f:
        payload = json.load(f)
    case = payload['case']
    mr = ModelRunner()
    try:
        run_history(ctx, mr, tuple(case['cfg']), case.get('closes', []), None)
    finally:
        mr.close()
    for d in ctx.diffs:
        print('REPRODUCED:', d['what'], 'expected', d['expected'], 'observed', d['observed'])
    return 1 if ctx.diffs else 0
