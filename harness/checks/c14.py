"""C14 -- SD-card files are transparently en/decrypted with the path-derived counter."""
import hashlib
import io
import json
import os
import random
import shutil
import tempfile

from ..core import Ctx, ModelRunner, prove, finish, hx, unhx
from .. import pyenv, filecontract as fc, sdcommon as sd

TRUSTED = [
    'Coq 8.16.1 kernel (coqc); no axioms; str.lower and SHA-256 are uninterpreted Section variables; the hypotheses on lower '
    '(idempotent; commutes with replacing "\\\\" by "/") are stated in the theorems and shown satisfiable by an Example',
    'translator py2gallina.py: CryptoEngine.sd_path_to_iv regenerated each run (the theorems are about the regenerated term, incl. the /backup rewrite)',
    'hand model coq/Model/Sd.v of setup_sd_key (accepted lengths, ID0), tied by the correspondence run; file views are CTR wrappers (C01/C12)',
    'independent derivation harness/sdcommon.py (hashlib + own scrambler + PyCryptodome ECB) = ground truth for counters, keys, ID0',
]
ASSUME = ['PyFilesystem2 (OSFS, MemoryFS, SubFS path joining) is used as is', 'Python\'s str.lower / UTF-16 codec on both sides of the oracle']

# incl. characters whose str.lower() differs from casefold() / upper().lower(): sharp s, final sigma, ligatures, dotted capital I
SEGS = ['title', 'Title', 'DATA', 'extdata', '00040000', '0F70C600', 'content', 'Ärger', '日本', 'a b', '\U0001F600x', 'x.y', 'dbs', 'Backup',
        'Straße', 'ΟΔΟΣ', 'ὈΔΥΣΣΕΎΣ', 'ﬁle', 'İstanbul', 'ǅ']


def gen_path(rng):
    depth = rng.randrange(1, 7)
    parts = [rng.choice(SEGS) for _ in range(depth - 1)] + [rng.choice(['00000000.app', 'file.BIN', 'Ç.sav', '1', 'title.db'])]
    return parts


def gen_case(rng):
    return dict(b9seed=rng.randrange(1 << 20), seed=rng.randrange(1 << 30), form=rng.choice([0x10, 0x120, 0x140]), backend=rng.choice(['mem', 'os']),
                dev=rng.random() < 0.3,
                nfiles=rng.randrange(1, 5), api=rng.choice(['sdfs', 'sdfs', 'sdfs', 'old']))


def run_case(ctx, mr, case):
    from pyctr.crypto import engine as E
    from pyctr.crypto.engine import CryptoEngine, BadMovableSedError
    from pyctr.type.sdfs import SDRoot
    rng = random.Random(case['seed'])
    pyenv.install_fake_boot9(case['b9seed'])
    dev = bool(case.get('dev'))
    blob = E._b9_keyblob['dev' if dev else 'retail']
    key16 = pyenv.rbytes(rng, 16)
    msed = sd.movable_sed(rng, key16, case['form'])
    nk = sd.sd_normal_key(sd.sd_keyx(blob), key16)
    id0 = sd.id0_of(key16).hex()
    id1 = pyenv.rbytes(rng, 16).hex()
    # model of setup_sd_key (incl. a rejected length)
    out = mr.ask('sdkey ' + hx(msed))
    e = CryptoEngine(dev=dev)
    rekey = rng.random() < 0.4
    if rekey:
        # the engine served another console before (its ID0 was looked at): the keys and the ID0 are those of the LAST movable.sed
        e.setup_sd_key(sd.movable_sed(rng, pyenv.rbytes(rng, 16), rng.choice([0x10, 0x120, 0x140])))
        _ = e.id0
        e = e.clone() if rng.random() < 0.5 else e
        ctx.stat('rekeyed_engines')
    e.setup_sd_key(msed)
    impl = hx(bytes.fromhex('%032x' % e.key_y[0x34])) + ' ' + hx(e.id0)
    if out != impl:
        ctx.diff('corr', 'sdkey-model', case, out, impl, 'setup_sd_key: Coq model and implementation differ')
    if e.id0.hex() != id0 or e.key_normal.get(0x34) != nk:
        ctx.diff('oracle', 'sd-key-id0', case, (id0, nk.hex()), (e.id0.hex(), (e.key_normal.get(0x34) or b'').hex()), 'SD normal key / ID0 differ from the independent derivation')
    for y in (0x30, 0x3A):
        if e.key_y.get(y) != int.from_bytes(key16, 'big'):
            ctx.diff('oracle', 'sd-keyy', dict(case, slot=y), key16.hex(), e.key_y.get(y), f'KeyY of slot {y:#x} not set from movable.sed')
    badlen = rng.choice([0, 0xF, 0x11, 0x11F, 0x121, 0x13F, 0x141])
    o2 = mr.ask('sdkey ' + hx(pyenv.rbytes(rng, badlen)))
    try:
        CryptoEngine().setup_sd_key(pyenv.rbytes(rng, badlen))
        got = 'accepted'
    except BadMovableSedError:
        got = 'e:Pyctr2'
    except Exception as ex:
        got = 'e:' + pyenv.errname(ex)
    if o2 != got:
        ctx.diff('oracle' if got != 'e:Pyctr2' else 'corr', 'sdkey-length', dict(case, badlen=badlen), o2, got, f'movable.sed of length {badlen:#x}')
    # files
    from fs.memoryfs import MemoryFS
    from fs.osfs import OSFS
    tmpdir = None
    try:
        if case['backend'] == 'os' or case['api'] == 'old':
            tmpdir = tempfile.mkdtemp(prefix='pyctr_c14_', dir='/dev/shm' if os.path.isdir('/dev/shm') else None)
            base = OSFS(tmpdir)
        else:
            base = MemoryFS()
        base.makedirs(f'{id0}/{id1}')
        files = {}
        for _ in range(case['nfiles']):
            parts = gen_path(rng)
            rel = '/' + '/'.join(parts)
            if rel.lower() in {k.lower() for k in files}:
                continue
            data = pyenv.rbytes(rng, rng.choice([0, 1, 15, 16, 17, 100, 333]))
            base.makedirs(f'{id0}/{id1}' + '/'.join([''] + parts[:-1]), recreate=True)
            base.writebytes(f'{id0}/{id1}{rel}', sd.sd_crypt(nk, rel, data))
            files[rel] = data
        if case['api'] == 'old':
            from pyctr.type.sd import SDFilesystem
            sdfs = SDFilesystem(tmpdir, sd_key=msed, dev=dev)
            ctx.stat('api_old')
            for rel, data in files.items():
                for spelling in (rel, rel.lstrip('/'), rel.replace('/', '\\') if os.sep == '\\' else rel):
                    try:
                        with sdfs.open(spelling) as f:
                            got = f.read()
                    except Exception as ex:
                        got = pyenv.errname(ex)
                    if got != data:
                        ctx.diff('oracle', 'sd-old-read', dict(case, path=spelling), data.hex()[:40], str(got)[:40], f'SDFilesystem.open({spelling!r}) does not decrypt to the content')
            return
        if rekey:
            eng = CryptoEngine(dev=dev)
            eng.setup_sd_key(sd.movable_sed(rng, pyenv.rbytes(rng, 16), 0x10))
            _ = eng.id0
            root = SDRoot(base, crypto=eng, sd_key=msed)
        else:
            root = SDRoot(base, sd_key=msed, dev=dev)
        ctx.stat('api_sdfs')
        if rng.random() < 0.5:
            # a clone of the card's engine given another console's key: the card itself keeps its own
            other = root._crypto.clone()
            other.setup_sd_key(sd.movable_sed(rng, pyenv.rbytes(rng, 16), 0x10))
            ctx.stat('clone_rekeyed')
        ctx.stat('dev' if dev else 'retail')
        if root.id0 != id0:
            ctx.diff('oracle', 'sd-id0', case, id0, root.id0, 'SDRoot.id0 differs')
        top = root.open_id1(id1)
        for rel, data in files.items():
            parts = rel.strip('/').split('/')
            # through the root view with case / separator variants, and through opendir chains
            views = [(top, rel), (top, rel.lstrip('/'))]
            if len(parts) > 1:
                k = rng.randrange(1, len(parts))
                views.append((top.opendir('/'.join(parts[:k])), '/'.join(parts[k:])))
                if k > 1:
                    views.append((top.opendir(parts[0]).opendir('/'.join(parts[1:k])), '/'.join(parts[k:])))
            for fsview, p in views:
                ctx.stat('views')
                try:
                    f = fsview.openbin(p, 'r+')
                except Exception as ex:
                    ctx.diff('oracle', 'sd-open-raises', dict(case, path=p), 'a file', pyenv.errname(ex), f'opening {p!r} raised')
                    continue

                def fail(sig, what, expected, observed, p=p):
                    if sig == 'seek-return':
                        return      # the value seek() returns is the PyFilesystem file object's own (MemoryFS returns a stale position)
                    ctx.diff('oracle', 'sd-file:' + sig, dict(case, path=p), str(expected)[:60], str(observed)[:60], f'SD file {p!r}: {what}')
                c = fc.Contract(f, files[rel], fail, writable=True, extends=True)
                ops = [o for o in fc.gen_ops(rng, len(files[rel]), 5, writable=True, whences=(0, 0, 1, 2))
                       if not (o[0] == 's' and o[1] > len(files[rel]) + 40)]
                # never begin a write beyond the end (C12 gap finding)
                safe = []
                pos, length = 0, len(files[rel])
                for o in ops:
                    if o[0] == 's':
                        # any whence, as long as the new position lies inside the file (a write must not begin beyond the end)
                        new = o[1] if o[2] == 0 else (pos + o[1] if o[2] == 1 else length + o[1])
                        if not 0 <= new <= length:
                            continue
                        pos = new
                    elif o[0] == 'r':
                        if not (o[1] == -1 or 0 <= o[1] <= 100000):
                            continue      # sizes the underlying OS / memory file itself rejects or cannot allocate
                        pos += (length - pos) if o[1] < 0 else min(o[1], length - pos)
                    elif o[0] == 'w':
                        pos += len(o[1]) // 2
                        length = max(length, pos)
                    safe.append(o)
                    if o[0] == 's' and o[2] == 0 and rng.random() < 0.3:
                        # the same place again, said relatively (by the position itself is the case where offset == tell())
                        extra = rng.choice([['s', 0, 1], ['s', pos - length, 2]] + ([['s', pos, 1]] if 2 * pos <= length else []))
                        safe.append(extra)
                        if extra == ['s', pos, 1]:
                            pos += pos
                        safe.append(['r', rng.choice([1, 16, 17])])
                        pos += min(safe[-1][1], length - pos)
                c.run(safe)
                if len(c.content) > 0 and rng.random() < 0.7:
                    # the history ends with a small write and nothing after it: what close() must get onto the disk
                    k = rng.randrange(len(c.content))
                    # (stepped, not run(): run() ends with a read-back sweep, which would flush a buffered file for us)
                    c.step(['s', k, 0])
                    c.step(['w', pyenv.rbytes(rng, min(3, len(c.content) - k)).hex()])
                f.close()
                files[rel] = bytes(c.content)
                raw = base.readbytes(f'{id0}/{id1}{rel}')
                want = sd.sd_crypt(nk, rel, files[rel])
                if raw != want:
                    ctx.diff('oracle', 'sd-raw-after-write', dict(case, path=p), want.hex()[:40], raw.hex()[:40], f'console-format bytes of {rel!r} are not the encryption of the view')
                # the other ways PyFilesystem offers of reading and writing a file through the same view
                for api in ('open', 'readbytes', 'writebytes', 'appendbytes', 'upload', 'download', 'writefile', 'hash', 'append-after-seek', 'append-after-read', 'appendtext', 'append-truncate-append'):
                    ctx.stat('api_' + api)
                    try:
                        if api == 'open':
                            with fsview.open(p, 'rb') as fh:
                                got = fh.read()
                        elif api == 'readbytes':
                            got = fsview.readbytes(p)
                        elif api == 'download':
                            sink = io.BytesIO()
                            fsview.download(p, sink)
                            got = sink.getvalue()
                        elif api == 'appendbytes':
                            more = pyenv.rbytes(rng, rng.choice([1, 15, 16, 33]))
                            fsview.appendbytes(p, more)
                            files[rel] = files[rel] + more
                            got = base.readbytes(f'{id0}/{id1}{rel}')
                        elif api == 'writefile':
                            new = pyenv.rbytes(rng, rng.choice([0, 5, 32, 100]))
                            fsview.writefile(p, io.BytesIO(new))
                            files[rel] = new
                            got = base.readbytes(f'{id0}/{id1}{rel}')
                        elif api == 'hash':
                            got = bytes.fromhex(fsview.hash(p, 'sha256'))
                        elif api == 'append-after-seek':
                            # a file opened for appending puts every write at its end, wherever the position was moved to before
                            more = pyenv.rbytes(rng, rng.choice([1, 16, 20, 33]))
                            with fsview.openbin(p, 'a+') as fh:
                                fh.seek(rng.choice([0, 0, 1, 16]))
                                fh.write(more)
                            files[rel] = files[rel] + more
                            got = base.readbytes(f'{id0}/{id1}{rel}')
                        elif api == 'append-after-read':
                            # ... also when a read (which leaves the wrapper with a cached cipher for that place) came in between
                            more = pyenv.rbytes(rng, rng.choice([1, 16, 20, 33]))
                            with fsview.openbin(p, 'a+') as fh:
                                fh.seek(0)
                                fh.read(rng.choice([1, 5, 16]))
                                fh.write(more)
                                fh.write(more[:3])
                            files[rel] = files[rel] + more + more[:3]
                            got = base.readbytes(f'{id0}/{id1}{rel}')
                        elif api == 'append-truncate-append':
                            # the end moves under an append handle (truncate through the handle itself): the next append lands at the new end,
                            # with the keystream of the new end (a generator of its own: the streams of the older scenarios stay as they were)
                            r2 = random.Random(len(files[rel]) * 31 + len(rel))
                            more, more2 = pyenv.rbytes(r2, r2.choice([24, 40])), pyenv.rbytes(r2, r2.choice([3, 16, 21]))
                            with fsview.openbin(p, 'a+') as fh:
                                fh.write(more)
                                k = r2.choice([0, 5, 16, 17, max(0, len(files[rel]) + len(more) - 9)])
                                fh.truncate(k)
                                fh.write(more2)
                            files[rel] = (files[rel] + more)[:k] + more2
                            got = base.readbytes(f'{id0}/{id1}{rel}')
                        elif api == 'appendtext':
                            # text mode is not offered; if it is refused nothing is written, if it is served the text arrives encrypted
                            try:
                                fsview.appendtext(p, 'world')
                                files[rel] = files[rel] + b'world'
                            except NotImplementedError:
                                ctx.stat('appendtext_refused')
                            got = base.readbytes(f'{id0}/{id1}{rel}')
                        elif api == 'upload':
                            new = pyenv.rbytes(rng, rng.choice([0, 5, 32, 100]))
                            fsview.upload(p, io.BytesIO(new))
                            files[rel] = new
                            got = base.readbytes(f'{id0}/{id1}{rel}')
                        else:
                            new = pyenv.rbytes(rng, rng.choice([0, 1, 16, 17, len(files[rel])]))
                            fsview.writebytes(p, new)
                            files[rel] = new
                            got = base.readbytes(f'{id0}/{id1}{rel}')
                    except Exception as ex:
                        ctx.diff('oracle', f'sd-{api}-raises', dict(case, path=p, api=api), 'bytes', pyenv.errname(ex) + ': ' + str(ex)[:60],
                                 f'{api}({p!r}) through the SD filesystem view raised {pyenv.errname(ex)}')
                        continue
                    exp = files[rel] if api in ('open', 'readbytes', 'download') else hashlib.sha256(files[rel]).digest() if api == 'hash' else sd.sd_crypt(nk, rel, files[rel])
                    if got != exp:
                        ctx.diff('oracle', f'sd-{api}', dict(case, path=p, api=api), exp.hex()[:40], bytes(got).hex()[:40],
                                 f'{api}({p!r}) through the SD filesystem view: ' + ('does not return (the digest of) the decrypted content' if api in ('open', 'readbytes', 'download', 'hash')
                                                                                     else 'does not store the encryption of the data'))
        for rel in list(files)[:2]:
            for api in ('copy', 'move'):
                dst = '/' + api + '_' + ''.join(rng.choice('abcXYZ09') for _ in range(5)) + '.bin'
                if dst.lower() in {k.lower() for k in files}:
                    continue
                ctx.stat('api_' + api)
                try:
                    getattr(top, api)(rel, dst)
                    raw = base.readbytes(f'{id0}/{id1}{dst}')
                    back = top.readbytes(dst)
                except Exception as ex:
                    ctx.diff('oracle', f'sd-{api}-raises', dict(case, path=rel, dst=dst), 'a copy', pyenv.errname(ex) + ': ' + str(ex)[:60], f'{api}({rel!r}, {dst!r}) raised')
                    continue
                if raw != sd.sd_crypt(nk, dst, files[rel]) or back != files[rel]:
                    ctx.diff('oracle', f'sd-{api}', dict(case, path=rel, dst=dst), sd.sd_crypt(nk, dst, files[rel]).hex()[:40], raw.hex()[:40],
                             f'{api}({rel!r}, {dst!r}): the new file is not the encryption of the content under ITS path counter')
                files[dst] = files[rel]
                if api == 'move':
                    if base.exists(f'{id0}/{id1}{rel}'):
                        ctx.diff('oracle', 'sd-move-left-source', dict(case, path=rel), 'removed', 'still there', 'move left the source file behind')
                    del files[rel]
                    rel = dst
        # whole directories: every file beneath arrives under its new path's counter
        dirs = sorted({r_.rsplit('/', 1)[0] for r_ in files if r_.count('/') >= 2})
        for api in ('copydir', 'movedir'):
            if not dirs:
                break
            src = dirs[0]
            dst = '/' + api + '_' + ''.join(rng.choice('abcXYZ09') for _ in range(5))
            inside = {r_: d_ for r_, d_ in files.items() if r_.startswith(src + '/')}
            if any(k.lower().startswith(dst.lower() + '/') for k in files):
                continue
            ctx.stat('api_' + api)
            try:
                getattr(top, api)(src, dst, create=True)
                ok = all(top.readbytes(dst + r_[len(src):]) == d_ and base.readbytes(f'{id0}/{id1}{dst + r_[len(src):]}') == sd.sd_crypt(nk, dst + r_[len(src):], d_)
                         for r_, d_ in inside.items())
            except Exception as ex:
                ctx.diff('oracle', f'sd-{api}-raises', dict(case, path=src, dst=dst), 'a copy', pyenv.errname(ex) + ': ' + str(ex)[:60], f'{api}({src!r}, {dst!r}) raised')
                break
            if not ok:
                ctx.diff('oracle', f'sd-{api}', dict(case, path=src, dst=dst), 'every file re-encrypted under its new path', 'not so',
                         f'{api}({src!r}, {dst!r}): a file beneath does not decrypt to its content under its new path')
                break
            for r_, d_ in inside.items():
                files[dst + r_[len(src):]] = d_
                if api == 'movedir':
                    del files[r_]
            if api == 'movedir':
                dirs = sorted({r_.rsplit('/', 1)[0] for r_ in files if r_.count('/') >= 2})
        # "Nintendo DSiWare" is the one directory below ID1 whose files are not served; a file elsewhere whose NAME merely contains
        # those words is a file like any other
        for odd in ('/title/My Nintendo DSiWare list.txt', '/Nintendo DSiWare notes.bin'):
            data = pyenv.rbytes(rng, 40)
            ctx.stat('dsiware_like_names')
            try:
                top.makedirs(odd.rsplit('/', 1)[0] or '/', recreate=True)
                top.writebytes(odd, data)
                back = top.readbytes(odd)
                raw = base.readbytes(f'{id0}/{id1}{odd}')
                if back != data or raw != sd.sd_crypt(nk, odd, data):
                    ctx.diff('oracle', 'sd-dsiware-like-name', dict(case, path=odd), data.hex()[:40], back.hex()[:40], f'{odd!r}: content / console-format bytes wrong')
            except Exception as ex:
                ctx.diff('oracle', 'sd-dsiware-like-name', dict(case, path=odd), 'written and read back', pyenv.errname(ex) + ': ' + str(ex)[:60],
                         f'a file below ID1 whose name contains the words "Nintendo DSiWare" cannot be written / read: {pyenv.errname(ex)}')
        # text mode is not offered: asking for text never hands out the stored (encrypted) bytes as if they were the text
        for rel in list(files)[:1]:
            try:
                txt = top.readtext(rel)
                good = False
                try:
                    good = txt == files[rel].decode('utf-8')
                except Exception:
                    pass
                if not good:
                    ctx.diff('oracle', 'sd-readtext', dict(case, path=rel), 'the decrypted text or NotImplementedError', repr(txt)[:40], 'readtext() returned something that is not the decrypted content')
            except NotImplementedError:
                ctx.stat('readtext_refused')
            except Exception as ex:
                ctx.diff('oracle', 'sd-readtext', dict(case, path=rel), 'the decrypted text or NotImplementedError', pyenv.errname(ex), 'readtext() did not go through the decrypting open()')
        # the counter function itself: case / separator insensitivity, independent derivation
        for rel in list(files)[:2]:
            for v in (rel, rel.upper(), rel.lower(), rel.replace('/', '\\'), rel.swapcase()):
                if v.lower() != rel.lower().replace('/', v[0]) and v.lower().replace('\\', '/') != rel.lower():
                    continue
                got = CryptoEngine.sd_path_to_iv(v)
                if got != sd.sd_counter(rel):
                    ctx.diff('oracle', 'sd-counter', dict(case, path=v), hex(sd.sd_counter(rel)), hex(got), f'sd_path_to_iv({v!r}) differs from the derivation for {rel!r}')
        bk = '/Backup/abc/0004000000ABCD00/00000001.sav'
        if CryptoEngine.sd_path_to_iv(bk) != sd.sd_counter('/title/00040000/00abcd00/data/00000001.sav'):
            ctx.diff('oracle', 'sd-counter-backup', case, 'title data path', 'different', 'backup path is not mapped onto the title data path')
    finally:
        if tmpdir:
            shutil.rmtree(tmpdir, ignore_errors=True)


def run_cases(ctx, cases):
    mr = ModelRunner({'sha256': lambda h: hx(hashlib.sha256(unhx(h)).digest())})
    try:
        for case in cases:
            ctx.case(case)
            run_case(ctx, mr, case)
    finally:
        mr.close()
        pyenv.uninstall_fake_boot9()


def run(ctx):
    proof = prove('C14', ['engine'], ['C14_props'], static_deps=['Proofs/SdProofs.v', 'Proofs/CtrProofs.v', 'Base/PyStr.v'])
    run_cases(ctx, (gen_case(ctx.rng) for _ in range(ctx.n(120, 4000))))

    def search():
        c2 = Ctx('C14', 'thorough', ctx.seed + 1)
        c2.findings = ctx.findings
        run_cases(c2, (gen_case(c2.rng) for _ in range(800)))
        bad = [d for d in c2.diffs if d['kind'] == 'oracle']
        return bad[0] if bad else None

    return finish(ctx, proof,
                  'random 16-byte keys in the three accepted movable.sed forms (and rejected lengths), files at depth 1-6 with mixed case, non-ASCII '
                  'and non-BMP path components on MemoryFS and OS directories, opened through the ID1 root view, with/without leading "/", and '
                  'through one- and two-level opendir views; read/write/seek histories (writes not beginning beyond the end); after each file the '
                  'console-format bytes are compared with an independent AES-CTR encryption under the path counter; ID0; counter insensitivity; '
                  'the older OS-path SDFilesystem API on a quarter of the cases',
                  TRUSTED, ASSUME, search=search)


def replay(ctx, path):
    with open(path) as f:
        payload = json.load(f)
    case = {k: v for k, v in payload['case'].items() if k not in ('path', 'slot', 'badlen')}
    run_cases(ctx, [case])
    for d in ctx.diffs:
        print('REPRODUCED:', d['what'], 'expected', d['expected'], 'observed', d['observed'])
    return 1 if ctx.diffs else 0
