"""C09 -- every sub-file view is confined to its window and obeys basic file semantics."""
import io
import json

from ..core import Ctx, ModelRunner, prove, finish, hx, unhx, zhex
from .. import pyenv, filecontract as fc

TRUSTED = [
    'Coq 8.16.1 kernel (coqc); no axioms (Print Assumptions: Closed under the global context)',
    'translator py2gallina.py: SubsectionIO.seek and the pure prefixes of SubsectionIO.read/write regenerated each run',
    'hand models coq/Env/PyFile.v (io.BytesIO) and coq/Model/Window.v (SubsectionIO), tied by the correspondence run',
    'extraction ExtrOcamlBasic only + ocaml/driver*.ml',
    'Python oracle harness/filecontract.py states the contract of the property directly on live objects',
]
ASSUME = [
    'theorem C09_window covers SubsectionIO over an in-memory base file whose length reaches the window start; '
    'the other view classes (merged files, CloseWrapper, reader-owned handles, crypto wrappers on windows, save level files) '
    'are decided by the contract oracle on sampled histories only, until their models are added',
    'locks are ignored here (C15)',
]


def fail_fn(ctx, case):
    def fail(sig, what, expected, observed):
        ctx.diff('oracle', f'{case["cls"]}:{sig}', case, expected, observed, f'{case["cls"]}: {what}')
    return fail


def case_window(ctx, mr, case):
    from pyctr.fileio import SubsectionIO
    base = bytes.fromhex(case['base'])
    off, sz, ops = case['off'], case['sz'], case['ops']
    bio = io.BytesIO(base)
    w = SubsectionIO(bio, off, sz)
    content = base[off:off + sz]
    probe = lambda: bio.getvalue()[:off] + b'|' + bio.getvalue()[off + sz:]
    c = fc.Contract(w, content, fail_fn(ctx, case), probe_outside=probe)
    # the oracle assumes the window lies inside the base; otherwise only the model comparison applies
    inside = off + sz <= len(base)
    if inside:
        res = c.run(ops)
        final = bio.getvalue()
        # model: replay the same ops (the contract run adds a final seek(0) + read(-1))
        line = f'window {zhex(off)} {zhex(sz)} {hx(base)} ' + ' '.join(fc.op_line(o) for o in ops + [['s', 0, 0], ['r', -1]])
    else:
        res = []
        for op in ops:
            try:
                if op[0] == 'r':
                    res.append('h:' + (w.readall() if len(op) > 2 and op[2] == 'all' else w.read(op[1])).hex())
                elif op[0] == 's':
                    res.append('i:%x' % w.seek(op[1], op[2]))
                elif op[0] == 'w':
                    res.append('i:%x' % w.write(bytes.fromhex(op[1])))
                elif op[0] == 'wv':
                    res.append('i:%x' % w.write(memoryview(bytes.fromhex(op[1])).cast({2: 'H', 4: 'I', 8: 'Q'}[op[2]])))
                else:
                    res.append('i:%x' % w.tell())
            except Exception as e:
                res.append('e:' + pyenv.errname(e))
        final = bio.getvalue()
        line = f'window {zhex(off)} {zhex(sz)} {hx(base)} ' + ' '.join(fc.op_line(o) for o in ops)
    out = mr.ask(line)
    mres, mfinal = out.split(' | ')
    mres = mres.split(' ') if mres else []
    if inside:
        mres = mres[:-2]
    if mres != res or unhx(mfinal) != final:
        k = next((i for i, (a, b) in enumerate(zip(mres, res)) if a != b), None)
        ctx.diff('corr', 'window-model', case, mres[k] if k is not None else mfinal, res[k] if k is not None else hx(final),
                 f'SubsectionIO: Coq model and implementation differ at op {k} ({ops[k] if k is not None else "final bytes"})')
    ctx.stat('window_histories')
    ctx.stat('window_inside' if inside else 'window_beyond_base')


class ReadOnlyBytesIO(io.BytesIO):
    """what a file opened 'rb' is: every way of changing it is refused"""

    def writable(self):
        return False

    def write(self, b):
        raise io.UnsupportedOperation('write')

    def truncate(self, *a):
        raise io.UnsupportedOperation('truncate')


def build_view(rng, cls, content_len):
    """returns (view, content, writable, probe_outside) for the oracle-only classes"""
    from pyctr.fileio import SubsectionIO, SplitFileMerger, CloseWrapper
    pre, post = pyenv.rbytes(rng, rng.randrange(0, 9)), pyenv.rbytes(rng, rng.randrange(0, 9))
    content = pyenv.rbytes(rng, content_len)
    if cls in ('window-ro', 'ctr-on-window-ro', 'twl-on-window-ro'):
        # views of a file that was opened read-only: writes are refused by the file underneath, and a refused call changes nothing
        from .. import ctrcommon as cc
        key, ctr = pyenv.rbytes(rng, 16), rng.getrandbits(100)
        stored = content if cls == 'window-ro' else cc.stream_xor(key, ctr, content, cls == 'twl-on-window-ro')
        bio = ReadOnlyBytesIO(pre + stored + post)
        v = SubsectionIO(bio, len(pre), len(content))
        keep = [bio, v]
        if cls != 'window-ro':
            slot = 0x03 if cls == 'twl-on-window-ro' else 0x2C
            e = cc.make_engine(key, slot)
            v = e.create_ctr_io(slot, v, ctr)
            keep.append(e)
        o = len(pre)
        return v, content, False, (lambda: bio.getvalue()[:o] + b'|' + bio.getvalue()[o + len(content):]), keep
    if cls == 'nested-window':
        pre2, post2 = pyenv.rbytes(rng, rng.randrange(0, 5)), pyenv.rbytes(rng, rng.randrange(0, 5))
        bio = io.BytesIO(pre + pre2 + content + post2 + post)
        outer = SubsectionIO(bio, len(pre), len(pre2) + len(content) + len(post2))
        v = SubsectionIO(outer, len(pre2), len(content))
        o = len(pre) + len(pre2)
        return v, content, True, (lambda: bio.getvalue()[:o] + b'|' + bio.getvalue()[o + len(content):]), [bio, outer]
    if cls == 'closewrapper':
        bio = io.BytesIO(pre + content + post)
        inner = SubsectionIO(bio, len(pre), len(content))
        v = CloseWrapper(inner)
        o = len(pre)
        return v, content, True, (lambda: bio.getvalue()[:o] + b'|' + bio.getvalue()[o + len(content):]), [bio, inner]
    if cls == 'merger':
        # split content into 1..4 segments, each a window on its own base
        cuts = sorted(rng.randrange(0, len(content) + 1) for _ in range(rng.randrange(0, 4)))
        segs = [content[a:b] for a, b in zip([0] + cuts, cuts + [len(content)])]
        keep = []
        files = []
        for s in segs:
            p = pyenv.rbytes(rng, rng.randrange(0, 4))
            bio = io.BytesIO(p + s + pyenv.rbytes(rng, rng.randrange(0, 4)))
            keep.append(bio)
            files.append((SubsectionIO(bio, len(p), len(s)), len(s)))
        v = SplitFileMerger(files)
        build_view.segs = segs
        return v, content, False, None, keep
    if cls in ('ctr-on-window', 'twl-on-window', 'cbc-on-window'):
        # crypto wrappers stacked on a window: the view is the plaintext; the base holds its independent encryption
        from .. import ctrcommon as cc
        from Cryptodome.Cipher import AES
        key = pyenv.rbytes(rng, 16)
        if cls == 'cbc-on-window':
            content = content[:len(content) // 16 * 16]
            iv = pyenv.rbytes(rng, 16)
            ct = AES.new(key, AES.MODE_CBC, iv).encrypt(content) if content else b''
        else:
            ctr = rng.getrandbits(100)
            ct = cc.stream_xor(key, ctr, content, cls == 'twl-on-window')
        bio = io.BytesIO(pre + ct + post)
        inner = SubsectionIO(bio, len(pre), len(content))
        slot = 0x03 if cls == 'twl-on-window' else 0x2C
        e = cc.make_engine(key, slot)
        v = e.create_cbc_io(slot, inner, iv) if cls == 'cbc-on-window' else e.create_ctr_io(slot, inner, ctr)
        o = len(pre)
        return v, content, cls != 'cbc-on-window', (lambda: bio.getvalue()[:o] + b'|' + bio.getvalue()[o + len(content):]), [bio, inner, e]
    if cls == 'reader-file':
        # a handle that keeps its own position and asks its reader for the bytes (_ReaderOpenFileBase): the decompressed .code of an ExeFS
        from pyctr.type.exefs import ExeFSReader
        from ..builders import exefs as XB, lzss as LZ
        plain = (pyenv.rbytes(rng, 7) * 40 + content)[:max(64, content_len + 40)]
        code = LZ.compress(plain, None, greedy=True)[0]
        if code is None:
            plain = b'abcabcabd' * 30
            code = LZ.compress(plain, None, greedy=True)[0]
        img = XB.build_exefs([('.code', code), ('banner', b'\x02' * 0x40)])[0]
        bio = io.BytesIO(img)
        r = ExeFSReader(bio, _load_icon=False)
        r.decompress_code()
        v = r.open('.code-decompressed')
        return v, plain, False, None, [bio, r]
    if cls == 'dpfs-file':
        # the DPFS level-3 file of a save partition: a window scattered over the active copies of its blocks
        from .. import savecommon as sv
        g = sv.gen_geom(rng, small=True)
        g['kind'] = 'diff'
        img, info, payloads = sv.build(g)
        c, bio = sv.open_container(img, 'diff')
        ip = info['partitions'][0]
        view = ip['dpfs_view']
        bs3 = ip['dpfs_block_sizes'][2]
        offs = ip['dpfs_lv3_block_offsets']

        def outside():
            b = bytearray(bio.getvalue())
            for i, o in enumerate(offs):
                n = min(bs3, len(view) - i * bs3)
                b[o:o + n] = b'|' * n
            return bytes(b)
        return c.partitions[0].dpfs_lv3_file, view, True, outside, [bio, c]
    if cls == 'ivfc-file':
        # the verified level-4 view of a save partition (IVFCLevel4Reader): keeps its own position, reads and writes whole hashed blocks
        from .. import savecommon as sv
        g = sv.gen_geom(rng, small=True)
        img, info, payloads = sv.build(g)
        c, bio = sv.open_container(img, g['kind'])
        return sv.lv4_reader(c, 0), payloads[0], True, None, [bio, c]
    if cls == 'exefs-entry':
        # an entry of an ExeFS that does not start at offset 0 of its file (reader created on a positioned file object)
        from pyctr.type.exefs import ExeFSReader
        from ..builders import exefs as XB
        files = [('a', pyenv.rbytes(rng, rng.choice([0, 5, 0x200, 0x201]))), ('view', content), ('z', pyenv.rbytes(rng, rng.choice([1, 0x1FF])))]
        rng.shuffle(files)
        img, xinfo = XB.build_exefs(files)
        lead = pyenv.rbytes(rng, rng.choice([0, 1, 0x10, 0x200, 0x233]))
        bio = io.BytesIO(lead + img + post)
        bio.seek(len(lead))
        r = ExeFSReader(bio, _load_icon=False)
        o = len(lead) + 0x200 + xinfo['view']['offset']
        return r.open('view'), content, True, (lambda: bio.getvalue()[:o] + b'|' + bio.getvalue()[o + len(content):]), [bio, r]
    if cls == 'ncch-exefs-overlap':
        # the two-keyslot ExeFS view of an NCCH (stitched from windows on two decrypting wrappers) when two secondary-key entries share
        # bytes: still exactly as long as the section, every byte from where tell() says
        from .. import ncchcommon as nc
        from pyctr.type.ncch import NCCHSection
        spec = nc.gen_spec(rng, small=True)
        spec.update(mode='normal', method=rng.choice([1, 0x0A, 0x0B]), uses_seed=rng.random() < 0.3, romfs=False,
                    exefs=[['.code', rng.choice([0x400, 0x600, 0x5F3])], ['logo', rng.choice([0x400, 0x230])], ['banner', 0x100]], slots=[0, 1, 2],
                    exefs_overlap=['.code', 'logo'])
        image, info, kwargs = nc.build(spec)
        r, bio = nc.open_reader(image, kwargs, start=rng.choice([0, 0x200]))
        return r.open_raw_section(NCCHSection.ExeFS), info['plain']['exefs'], False, None, [bio, r]
    if cls == 'ncch-fulldec':
        # the fully-decrypted view of an encrypted NCCH whose sections are separated by unclaimed space: a handle with a position
        # of its own, assembled from per-section pieces and raw gaps
        from .. import ncchcommon as nc
        from . import c04
        from pyctr.type.ncch import NCCHSection
        spec = nc.gen_spec(rng, small=True)
        spec.update(mode='normal', extheader=True, logo=0x200, plain=0x200, romfs=True,
                    gaps={k: rng.choice([1, 1, 2]) for k in ('logo', 'plain', 'exefs', 'romfs', 'end')})
        if not spec['exefs']:
            spec['exefs'], spec['slots'] = [['.code', 0x210]], [0]
        image, info, kwargs = nc.build(spec)
        r, bio = nc.open_reader(image, kwargs, start=rng.choice([0, 0x200, 0x33]))
        return r.open_raw_section(NCCHSection.FullDecrypted), c04.expected_image(image, info, False), False, None, [bio, r]
    raise ValueError(cls)


def case_oracle(ctx, case, mr=None):
    rng = __import__('random').Random(case['vseed'])
    v, content, writable, probe, keep = build_view(rng, case['cls'], case['sz'])
    ops = case['ops']
    if case['cls'] in ('reader-file', 'dpfs-file', 'ivfc-file', 'ncch-fulldec', 'ncch-exefs-overlap'):
        # the size of these views is known only once they are built: the history is drawn for the real size (same seed, so it replays)
        ops = fc.gen_ops(rng, len(content), len(case['ops']) + 2, writable=writable, whences=(0, 0, 1, 2, 2), spellings=case['cls'] in SPELLED)
        case = dict(case, ops=ops)
    c = fc.Contract(v, content, fail_fn(ctx, case), writable=writable, probe_outside=probe)
    c.run(ops)
    ctx.stat(case['cls'] + '_histories')
    if case['cls'] == 'reader-file' and mr is not None:
        # reader-owned files have a Coq model too (Model/PosReader.v, proved lawful): same history on the extracted model
        line = 'posreader ' + hx(content) + ' ' + ' '.join(
            ('r,' + zhex(o[1])) if o[0] == 'r' else ('s,%s,%s' % (zhex(o[1]), zhex(o[2]))) if o[0] == 's' else 't' for o in ops)
        out = mr.ask(line).split(' ') if ops else []
        if out != c.results[:len(out)]:
            k = next((i for i, (a, b) in enumerate(zip(out, c.results)) if a != b), None)
            ctx.diff('corr', 'posreader-model', case, out[k] if k is not None else str(out)[:80], c.results[k] if k is not None else str(c.results)[:80],
                     f'reader-owned file: Coq model and implementation differ at op {k}')
        ctx.stat('posreader_model_histories')
    if case['cls'] == 'merger' and mr is not None:
        # the merged file also has a Coq model (Model/Merger.v): same history on the extracted model
        ops = [o for o in ops if o[0] != 'w']
        line = 'merger ' + (','.join(s.hex() for s in build_view.segs) or '-') + ' ' + ' '.join(
            ('r,' + zhex(o[1])) if o[0] == 'r' else ('s,%s,%s' % (zhex(o[1]), zhex(o[2]))) if o[0] == 's' else 't' for o in ops)
        if len(ops) == len(case['ops']):
            out = mr.ask(line).split(' ') if ops else []
            if out != c.results:
                k = next((i for i, (a, b) in enumerate(zip(out, c.results)) if a != b), None)
                ctx.diff('corr', 'merger-model', case, out[k] if k is not None else str(out)[:80], c.results[k] if k is not None else str(c.results)[:80],
                         f'merged file: Coq model and implementation differ at op {k}')
            ctx.stat('merger_model_histories')


# classes whose histories include read(None) and writes handed over as buffers of wider items
SPELLED = ('nested-window', 'closewrapper', 'ctr-on-window', 'twl-on-window', 'dpfs-file', 'ivfc-file', 'exefs-entry')
READ_ONLY = ('window-ro', 'ctr-on-window-ro', 'twl-on-window-ro')


def merger_edge_case(ctx, case):
    """a merged file whose piece holds less than its declared size (a truncated container), and one whose piece refuses the read:
    positions equal where data was taken from -- no byte of a later piece is handed out for an earlier position, a refused read moves nothing"""
    import random
    from pyctr.fileio import SplitFileMerger
    from pyctr.crypto.engine import CryptoEngine
    rng = random.Random(case['vseed'])
    a_decl, a_have = 0x20, rng.choice([0, 1, 0x10, 0x1F])
    A, B = pyenv.rbytes(rng, a_have), pyenv.rbytes(rng, 0x20)
    fail = fail_fn(ctx, case)
    ctx.stat('merger_edge_cases')
    if case['edge'] == 'short':
        m = SplitFileMerger([(io.BytesIO(A), a_decl), (io.BytesIO(B), 0x20)])
        start = rng.choice([0, 0, a_have // 2])
        m.seek(start)
        got = m.read(rng.choice([0x30, -1, 0x21]))
        after = m.tell()
        logical = {i: A[i] for i in range(a_have)}
        logical.update({a_decl + i: B[i] for i in range(0x20)})
        wrong = [i for i, x in enumerate(got) if logical.get(start + i) != x]
        if wrong or after != start + len(got):
            fail('merger-short-piece', f'read across a piece that holds {a_have:#x} of its declared {a_decl:#x} bytes: byte {wrong[0] if wrong else "-"} of the result is not the byte '
                 f'at position start+{wrong[0] if wrong else 0}, or the position ({after}) is not start + bytes returned ({start + len(got)})', 'bytes at their positions', got.hex()[:80])
        m.seek(a_decl)
        if m.read(0x10) != B[:0x10]:
            fail('merger-short-piece', 'the piece behind the short one is not found at its declared position', B[:0x10].hex(), '?')
    else:
        e = CryptoEngine(setup_b9_keys=False)
        locked = e.create_ctr_io(0x2C, io.BytesIO(bytes(0x20)), 0)          # no key in the slot: its reads are refused
        m = SplitFileMerger([(io.BytesIO(B), 0x20), (locked, 0x20)])
        start = rng.choice([0, 0x10, 0x1F])
        m.seek(start)
        try:
            m.read(0x30)
            fail('merger-refused-read', 'a read through a piece whose keyslot has no key returned', 'KeyslotMissingError', 'bytes')
        except Exception:
            pass
        if m.tell() != start:
            fail('read-error-moved', f'a read at {start} that was refused by the second piece left the position at {m.tell()}', start, m.tell())


def gen_cases(ctx, rng):
    for i in range(ctx.n(30, 600)):
        yield dict(cls='merger-edge', edge=rng.choice(['short', 'short', 'refused']), vseed=rng.randrange(1 << 30))
    n = ctx.n(400, 20000)
    for i in range(n):
        sz = rng.choice([0, 1, 2, 3, 5, 16, 17, 40])
        off = rng.choice([0, 1, 3, 16])
        extra = rng.choice([0, 0, 1, 4])
        short = rng.random() < 0.15   # window reaching beyond the base file's end
        blen = off + sz + extra if not short else rng.randrange(off, off + sz + 1)
        yield dict(cls='window', base=pyenv.rbytes(rng, blen).hex(), off=off, sz=sz,
                   ops=fc.gen_ops(rng, sz, rng.randrange(1, 16), spellings=rng.random() < 0.3))
    for cls in ('nested-window', 'closewrapper', 'merger', 'ctr-on-window', 'twl-on-window', 'cbc-on-window', 'reader-file', 'dpfs-file', 'ivfc-file', 'exefs-entry', 'ncch-fulldec', 'ncch-exefs-overlap') + READ_ONLY:
        for i in range(ctx.n(300, 10000) if cls not in ('reader-file', 'dpfs-file', 'ivfc-file', 'ncch-fulldec', 'ncch-exefs-overlap') else ctx.n(60, 1500)):
            sz = rng.choice([0, 1, 2, 3, 5, 16, 17, 40])
            if cls == 'cbc-on-window':
                sz = rng.choice([0, 16, 32, 48, 80])
            yield dict(cls=cls, sz=sz, vseed=rng.randrange(1 << 30),
                       ops=fc.gen_ops(rng, sz, rng.randrange(1, 16), writable=(cls not in ('merger', 'cbc-on-window', 'reader-file', 'ncch-exefs-overlap') + READ_ONLY),
                                      refused_writes=cls in READ_ONLY, spellings=cls in SPELLED))


def exhaustive_cases():
    """thorough tier: all op triples with arguments in {-2,-1,0,1,sz-1,sz,sz+1} on windows of size 0..3 over a 6-byte base"""
    base = bytes([0x10, 0x11, 0x12, 0x13, 0x14, 0x15])
    for sz in range(4):
        for off in (0, 2):
            args = sorted({-2, -1, 0, 1, sz - 1, sz, sz + 1})
            alphabet = [['r', a] for a in args] + [['s', a, wh] for a in args for wh in (0, 1, 2)] + \
                       [['w', 'aa'], ['w', 'aabbccdd'], ['t']]
            for a in alphabet:
                for b in alphabet:
                    for c in alphabet:
                        yield dict(cls='window', base=base.hex(), off=off, sz=sz, ops=[a, b, c])


def run_cases(ctx, cases):
    mr = ModelRunner()
    try:
        for case in cases:
            ctx.case(case)
            if case['cls'] == 'merger-edge':
                merger_edge_case(ctx, case)
            elif case['cls'] == 'window':
                case_window(ctx, mr, case)
            else:
                case_oracle(ctx, case, mr)
    finally:
        mr.close()


def run(ctx):
    proof = prove('C09', ['fileio', 'common', 'dpfs', 'ivfcpd'], ['C09_bridge', 'C09_props'],
                  static_deps=['Proofs/WindowProofs.v', 'Proofs/LawfulChunkProofs.v', 'Base/ListExt.v', 'Base/PySlice.v', 'Env/PyFile.v'])
    run_cases(ctx, gen_cases(ctx, ctx.rng))
    extra = {}
    if not ctx.quick():
        n0 = ctx.evaluations
        run_cases(ctx, exhaustive_cases())
        extra['exhaustive_small_scope_cases'] = ctx.evaluations - n0

    def search():
        c2 = Ctx('C09', 'thorough', ctx.seed + 1)
        run_cases(c2, gen_cases(c2, c2.rng))
        bad = [d for d in c2.diffs if d['kind'] == 'oracle']
        return bad[0] if bad else None

    return finish(ctx, proof,
                  'seeded histories (1-15 ops) of read/seek/write/tell with arguments from {-2^40,-17,-2,-1,0,1,sz-1,sz,sz+1,2^40,random}, '
                  'whence 0-3, window sizes {0,1,2,3,5,16,17,40}, windows inside and beyond the base; per class: window (model + oracle), '
                  'nested window, CloseWrapper, merged split file (oracle); thorough adds all op triples on tiny windows',
                  TRUSTED, ASSUME, extra_cov=extra, search=search)


def replay(ctx, path):
    with open(path) as f:
        payload = json.load(f)
    run_cases(ctx, [payload['case']])
    for d in ctx.diffs:
        print('REPRODUCED:', d['what'], 'expected', d['expected'], 'observed', d['observed'])
    return 1 if ctx.diffs else 0
