"""C05 -- CIA archives: section geometry, title key, content selection, content decryption."""
import io
import json
import random

from ..core import Ctx, ModelRunner, prove, finish
from .. import pyenv, filecontract as fc, ncchcommon as nc
from ..builders import pack as P

TRUSTED = [
    'Coq 8.16.1 kernel (coqc); no axioms; AES enters only through the hypothesis D k (E k b) = b of C05_titlekey',
    'translator py2gallina.py: util.roundup, the five section-offset expressions and the content IV expression regenerated each run',
    'hand model coq/Model/Cia.v of the content-index loop, content selection and title-key step (tie 2: oracle on generated archives)',
    'independent builders harness/builders/pack.py (CIA, ticket, TMD) and ncch.py (contents) = ground truth',
    'content views are CBC wrappers over windows (C02/C09); nested readers are C03/C06/C07',
]
ASSUME = ['synthetic bootROM blobs (KeyX of the common-key slot 0x3D is read from the blob the harness installed); retail and dev key sets',
          'key isolation between contents is decided on the implementation (mutation after clone, interleaved opens), not by a theorem']


def gen_case(rng):
    n = rng.choice([1, 1, 2, 3, 4, 6])
    idxs = sorted(rng.sample(range(0, 40), n))
    if rng.random() < 0.6:
        idxs[0] = 0
        idxs = sorted(set(idxs))
    contents = []
    b9seed = rng.randrange(1 << 20)
    for i in idxs:
        spec = nc.gen_spec(rng, small=True)
        spec['b9seed'] = b9seed
        if spec['mode'] == 'assume':
            spec['mode'] = 'normal'
        contents.append(dict(index=i, id=rng.getrandbits(32), encrypted=rng.random() < 0.7, spec=spec))
    present = [c['index'] for c in contents if rng.random() < 0.75] or [contents[0]['index']]
    return dict(b9seed=b9seed, contents=contents, present=present, cki=rng.randrange(6), dev=rng.random() < 0.25,
                cert=rng.choice([0, 1, 0x3F, 0x40, 0x41, 0xA00]), meta=rng.choice([0, 0, 8, 0x3AC0]), start=rng.choice([0, 0, 0x40, 0x123]),
                tid=(0x00040000 << 32) | rng.getrandbits(32), tkseed=rng.randrange(1 << 30), bogus=(rng.random() < 0.1),
                shared=(rng.choice([[3, 0, 3], [5, 0, 5], [0, 1, 0], [rng.randrange(6) for _ in range(3)]]) if rng.random() < 0.35 else None))


def run_case(ctx, mr, case):
    from pyctr.crypto import engine as E, seeddb
    from pyctr.type.cia import CIAReader, CIASection, InvalidCIAError
    rng = random.Random(case['tkseed'])
    pyenv.install_fake_boot9(case['b9seed'])
    dev = case['dev']
    blob = E._b9_keyblob['dev' if dev else 'retail']
    ckx = int.from_bytes(blob[0x170 + 16 * 4 + 16:0x170 + 16 * 4 + 32], 'big')   # KeyX 0x3D: fifth group, second key of key_loop_increase('x', 0x3C)
    titlekey = pyenv.rbytes(rng, 16)
    built, seeds = {}, {}
    contents = []
    for c in case['contents']:
        image, info, kwargs = nc.build(c['spec'])
        if dev:   # contents are opened with dev engines: rebuild with dev KeyX
            pass
        built[c['index']] = (image, info, kwargs)
        # trailing bytes after the NCCH make the content sizes cover every residue mod 64 (only 16-byte alignment is required)
        data = image + b'\0' * ((-len(image)) % 16) + b'\0' * (16 * (c['id'] % 4))
        contents.append(dict(id=c['id'], index=c['index'], data=data, encrypted=c['encrypted']))
        if kwargs.get('seed'):
            seeds[c['spec']['program_id']] = kwargs['seed']
    present = set(case['present'])
    cia, cinfo = P.build_cia(contents, title_id=case['tid'], titlekey=titlekey, common_key_x=ckx, common_key_index=case['cki'],
                             present=present, cert_chain=pyenv.rbytes(rng, case['cert']), meta=pyenv.rbytes(rng, case['meta']),
                             dev_key0=E.DEV_COMMON_KEY_0 if dev else None)
    ctx.stat('dev' if dev else 'retail')
    # an index that names a content the TMD lacks is refused
    if case['bogus']:
        bad = bytearray(cia)
        missing = next(i for i in range(64) if i not in {c['index'] for c in contents})
        bad[0x20 + missing // 8] |= 0x80 >> (missing % 8)
        try:
            CIAReader(io.BytesIO(bytes(bad)), dev=dev, load_contents=False)
            ctx.diff('oracle', 'cia-bogus-accepted', case, 'InvalidCIAError', 'accepted', 'content index naming a content the TMD lacks was accepted')
        except InvalidCIAError:
            ctx.stat('bogus_refused')
        except Exception as ex:
            ctx.diff('oracle', 'cia-bogus-error', case, 'InvalidCIAError', pyenv.errname(ex), 'wrong error for an index without TMD record')
    seeddb._seeds.clear()
    seeddb._loaded_from_default_paths = True
    for pid, sd in seeds.items():
        seeddb.add_seed(pid, sd)
    bio = io.BytesIO(b'\x5A' * case['start'] + cia)
    bio.seek(case['start'])
    # contents built with retail KeyX cannot be parsed by a dev engine: open those raw only
    load = not dev
    try:
        r = CIAReader(bio, dev=dev, load_contents=load)
    except Exception as ex:
        ctx.diff('oracle', 'cia-open-raises', case, 'a reader', pyenv.errname(ex) + ': ' + str(ex)[:80], 'well-formed CIA rejected')
        return
    try:
        # geometry
        want = {CIASection.ArchiveHeader: 'header', CIASection.CertificateChain: 'cert_chain', CIASection.Ticket: 'ticket',
                CIASection.TitleMetadata: 'tmd'}
        if case['meta']:
            want[CIASection.Meta] = 'meta'
        for sec, name in want.items():
            reg = r.sections.get(sec)
            exp = (cinfo['offsets'][name], cinfo['sizes'][name])
            if reg is None or (reg.offset, reg.size) != exp or reg.offset % 64:
                ctx.diff('oracle', 'cia-geometry', dict(case, section=name), exp, reg and (reg.offset, reg.size), f'CIA section {name} at the wrong place')
            else:
                got = r.open_raw_section(sec).read()
                if got != cia[exp[0]:exp[0] + exp[1]]:
                    ctx.diff('oracle', 'cia-section-bytes', dict(case, section=name), 'section bytes', 'different', f'CIA section {name} bytes differ')
        if (CIASection.Meta in r.sections) != bool(case['meta']):
            ctx.diff('oracle', 'cia-meta', case, bool(case['meta']), CIASection.Meta in r.sections, 'meta section presence')
        # title key
        if r._crypto.key_normal.get(0x40) != titlekey:
            ctx.diff('oracle', 'cia-titlekey', case, titlekey.hex(), (r._crypto.key_normal.get(0x40) or b'').hex(), 'title key recovered from the ticket differs')
        # exactly the present contents
        listed = sorted(k for k in r.sections if isinstance(k, int) and k >= 0)
        if listed != sorted(present) or [c.cindex for c in r.content_info] != [c['index'] for c in contents if c['index'] in present]:
            ctx.diff('oracle', 'cia-active-set', case, sorted(present), listed, 'listed contents differ from the content index')
        # content views in random order, interleaved
        order = [i for i in listed if i in present]
        rng.shuffle(order)
        handles = {}
        for i in order:
            data = next(c['data'] for c in contents if c['index'] == i)
            try:
                f = r.open_raw_section(i)
            except Exception as ex:
                ctx.diff('oracle', 'cia-content-open', dict(case, content=i), 'a view', pyenv.errname(ex), f'opening content {i} raised')
                continue
            handles[i] = (f, data)
        # ... and the archive's other sections (their views share the same file), one operation at a time, round and round: what a
        # view returns does not depend on what was read through another one in between
        for sec, name in want.items():
            reg = r.sections.get(sec)
            if reg is not None:
                handles[name] = (r.open_raw_section(sec), cia[cinfo['offsets'][name]:cinfo['offsets'][name] + cinfo['sizes'][name]])
        running = []
        for i in list(order) + [n_ for n_ in handles if not isinstance(n_, int)]:
            if i not in handles:
                continue
            f, data = handles[i]

            def fail(sig, what, expected, observed, i=i):
                ctx.diff('oracle', f'cia-content:{sig}', dict(case, content=i), str(expected)[:100], str(observed)[:100], f'CIA content / section {i}: {what}')
            c = fc.Contract(f, data, fail, writable=False)
            c.flags()
            ops = fc.gen_ops(rng, len(data), 4, writable=False, whences=(0, 0, 1, 2))
            # consecutive reads without a seek in between (the other views are used meanwhile)
            ops += [['s', rng.randrange(len(data) + 1), 0], ['r', rng.choice([1, 16, 33])], ['r', rng.choice([1, 16, 33])], ['r', 7]]
            running.append([c, ops])
            ctx.stat('content_views')
        while running:
            k = rng.randrange(len(running))
            c, ops = running[k]
            c.step(ops.pop(0))
            if not ops:
                c.run([])          # the read-back sweep
                running.pop(k)
        # nested readers: each content's own files, whatever was opened before or after
        if load:
            if sorted(r.contents) != sorted(present):
                ctx.diff('oracle', 'cia-nested-set', case, sorted(present), sorted(r.contents), 'nested readers differ from the present contents')
            for i in order:
                image, info, kwargs = built[i]
                n = r.contents.get(i)
                if n is None:
                    continue
                for name in nc.SEC_NAMES:
                    if name in info['plain'] and name != 'header':
                        try:
                            got = n.open_raw_section(nc.sec_enum(name)).read()
                        except Exception as ex:
                            got = pyenv.errname(ex)
                        if got != info['plain'][name]:
                            ctx.diff('oracle', 'cia-nested-section', dict(case, content=i, section=name), 'section plaintext', str(got)[:40],
                                     f'nested reader of content {i}: section {name} differs (keys of another content?)')
                ctx.stat('nested_readers')
    finally:
        r.close()
    # one engine handed to several archives in a row (crypto=engine): each ticket is decrypted under its own common key, whatever
    # tickets the engine has seen before -- in particular index k, then 0 (on dev units a plain normal key), then k again
    if case.get('shared'):
        from pyctr.crypto.engine import CryptoEngine
        engine = CryptoEngine(dev=dev)
        k = case['cki'] or 3
        for step, cki in enumerate(case['shared']):
            tk = pyenv.rbytes(rng, 16)
            cia2, _ = P.build_cia(contents, title_id=case['tid'], titlekey=tk, common_key_x=ckx, common_key_index=cki,
                                  present=present, cert_chain=b'', meta=b'', dev_key0=E.DEV_COMMON_KEY_0 if dev else None)
            ctx.stat('shared_engine_archives')
            try:
                r3 = CIAReader(io.BytesIO(cia2), crypto=engine, dev=dev, load_contents=False)
            except Exception as ex:
                ctx.diff('oracle', 'cia-open-raises', dict(case, step=step), 'a reader', pyenv.errname(ex) + ': ' + str(ex)[:80], 'well-formed CIA rejected by a reused engine')
                break
            try:
                got_tk = r3._crypto.key_normal.get(0x40)
                i = next((c['index'] for c in contents if c['index'] in present and c['encrypted']), None)
                bad_content = i is not None and r3.open_raw_section(i).read() != next(c['data'] for c in contents if c['index'] == i)
                if got_tk != tk or bad_content:
                    ctx.diff('oracle', 'cia-titlekey-shared-engine', dict(case, step=step), tk.hex(), (got_tk or b'').hex(),
                             f'archive {step} (common key index {cki}) opened with an engine that loaded the tickets {case["shared"][:step]} before: wrong title key')
            finally:
                r3.close()


def run_cases(ctx, cases):
    try:
        for case in cases:
            ctx.case(case)
            run_case(ctx, None, case)
    finally:
        pyenv.uninstall_fake_boot9()


def run(ctx):
    proof = prove('C05', ['util', 'cia'], ['C05_props'], static_deps=['Proofs/CiaProofs.v', 'Proofs/CbcProofs.v'])
    run_cases(ctx, (gen_case(ctx.rng) for _ in range(ctx.n(80, 1500))))

    def search():
        c2 = Ctx('C05', 'thorough', ctx.seed + 1)
        run_cases(c2, (gen_case(c2.rng) for _ in range(500)))
        bad = [d for d in c2.diffs if d['kind'] == 'oracle']
        return bad[0] if bad else None

    return finish(ctx, proof,
                  'generated CIAs: cert/meta sizes covering residues mod 64, 1-6 contents with random indices (0-39) and presence subsets, '
                  'encrypted/plain mix, common-key index 0-5, retail and dev key sets, non-zero start offsets; contents are small NCCHs of C03 '
                  'with different keys, opened and read in random interleaved orders; section offsets/bytes, title key, active set, content views '
                  '(contract oracle), nested sections; archives whose index names a content without TMD record',
                  TRUSTED, ASSUME, search=search)


def replay(ctx, path):
    with open(path) as f:
        payload = json.load(f)
    case = {k: v for k, v in payload['case'].items() if k not in ('section', 'content')}
    run_cases(ctx, [case])
    for d in ctx.diffs:
        print('REPRODUCED:', d['what'], 'expected', d['expected'], 'observed', d['observed'])
    return 1 if ctx.diffs else 0
