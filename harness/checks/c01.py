"""C01 -- random-access AES-CTR reads equal whole-stream decryption (3DS and DSi mode)."""
import json

from ..core import Ctx, ModelRunner, prove, finish, unhx
from .. import pyenv, filecontract as fc, ctrcommon as cc

PROP = 'C01'
WRITES = False
DYN = ['CTR_bridge', 'C01_props']
TRUSTED = [
    'Coq 8.16.1 kernel (coqc); no axioms (Print Assumptions: Closed under the global context); AES is an uninterpreted Section variable E',
    'translator py2gallina.py: counter / discard / padding expressions and the keyslot<4 tests regenerated from engine.py each run',
    'hand models Env/PyFile.v, Model/Window.v, Env/Cipher.v (PyCryptodome CTR object incl. direction lock), Model/CtrIO.v; tied by the correspondence run',
    'extraction ExtrOcamlBasic only; AES answered by PyCryptodome ECB through a call-back pipe (ocaml/driver.ml, harness/core.py)',
    'oracle: whole-stream keystream computed independently with PyCryptodome ECB (harness/ctrcommon.py)',
]
ASSUME = [
    'precondition of the property: counter + stream length in blocks < 2^128 (the model reduces the counter mod 2^128, PyCryptodome raises)',
    'the underlying file is io.BytesIO or SubsectionIO over io.BytesIO (lawful files); locks ignored (C15)',
]


def run_case(ctx, mr, case):
    if case.get('sib'):
        return sibling_case(ctx, case)
    if case.get('shared'):
        return shared_state_case(ctx, case)
    if case.get('huge'):
        return huge_read_case(ctx, case)
    v, bio, off, sz = cc.open_view(case)
    base = bytes.fromhex(case['base'])
    key = bytes.fromhex(case['key'])
    plain = cc.stream_xor(key, case['ctr'], base[off:off + sz], case['twl'])
    mode = 'twl' if case['twl'] else 'ctr'
    gap = [False]

    def fail(sig, what, expected, observed):
        s = f'{mode}-{case["kind"]}:{sig}'
        if gap[0]:
            s = f'{mode}-{case["kind"]}:gap-extension'
        ctx.diff('oracle', s, case, expected, observed, f'{mode} wrapper over {case["kind"]} file: {what}')

    probe = (lambda: bio.getvalue()[:off] + b'|' + bio.getvalue()[off + sz:]) if case['kind'] == 'window' else None
    short = case['kind'] == 'window' and len(base) < off + sz
    # the clause "the position advances by the number of bytes returned / written" is checked on every call, whatever the file below
    v = cc.AdvanceCheck(v, lambda what, exp, obs: ctx.diff('oracle', f'{mode}-{case["kind"]}:advance', case, exp, obs,
                                                          f'{mode} wrapper over {case["kind"]} file: {what}'))
    if short:
        # a window that reaches beyond the end of its base file has two ends (what is there / what is declared): the ordinary-file
        # oracle does not apply; what is decided here is the position clause above, the content of every read against the decryption
        # of what the base file holds at that moment, and the correspondence with the Coq model
        ctx.stat('short_windows')
        fail_full, fail = fail, (lambda *a: None)
        v.check_reads = lambda pos, got: got == cc.stream_xor(key, case['ctr'], bio.getvalue()[off:off + sz], case['twl'])[pos:pos + len(got)]
    c = fc.Contract(v, plain, fail, writable=True, probe_outside=probe if not short else None, extends=(case['kind'] == 'plain'))
    if case.get('start'):
        ctx.stat('wrapped_at_nonzero_position')
        try:
            if v.tell() != case['start']:
                fail('initial-position', 'a wrapper made over a file at position p does not start at p', case['start'], v.tell())
        except Exception as ex:
            fail('initial-position', 'tell() raised right after the wrapper was made', case['start'], pyenv.errname(ex))
    c.flags()
    res = []
    for op in case['ops']:
        if op[0] in ('w', 'wv') and op[1] and case['kind'] == 'plain':
            try:
                if v.tell() > len(c.content):
                    gap[0] = True
                    ctx.stat('histories_with_gap_write')
            except Exception:
                pass
        c.step(op)
    res = c.results
    # the file must be the encryption of the logical plaintext, byte for byte
    under = bio.getvalue()[off:off + sz] if case['kind'] == 'window' else bio.getvalue()
    want = cc.stream_xor(key, case['ctr'], bytes(c.content), case['twl'])
    if under != want and not short:
        fail('file-not-encryption-of-view', 'underlying bytes are not the encryption of the logical plaintext',
             want.hex(), under.hex())
    # correspondence with the extracted Coq model: same results, same final file bytes
    out = mr.ask(cc.model_line(case, case['ops']))
    mres, mfinal = out.split(' | ')
    mres = mres.split(' ') if mres else []
    if case.get('start'):
        mres = mres[1:]          # the model was brought to the same starting position by a seek of its own
    if mres != res or unhx(mfinal) != bio.getvalue():
        k = next((i for i, (a, b) in enumerate(zip(mres, res)) if a != b), None)
        ctx.diff('corr', f'{mode}-model', case, mres[k] if k is not None else mfinal,
                 res[k] if k is not None else bio.getvalue().hex(),
                 f'{mode} wrapper: Coq model and implementation differ at op {k}')
    ctx.stat(f'{mode}_{case["kind"]}')
    for op in case['ops']:
        ctx.stat('op_' + op[0])


class ReadOnlyBytesIO(__import__('io').BytesIO):
    """what a file opened 'rb' is: every way of changing it is refused"""

    def writable(self):
        return False

    def write(self, b):
        raise __import__('io').UnsupportedOperation('write')


def shared_state_case(ctx, case):
    """the wrapper shares two things with the rest of the program: the file underneath (here one that refuses writes, as every file a
    reader opened 'rb' does) and the engine (whose key for the slot may arrive late, be replaced, or be replaced in a CLONE of the
    engine).  A refused call changes nothing; every read that builds its cipher afresh decrypts under the key the engine holds for the
    slot then; what happens to a clone does not reach the original"""
    import random
    from pyctr.fileio import SubsectionIO
    rng = random.Random(case['seed'])
    twl = case['twl']
    mode = 'twl' if twl else 'ctr'
    slot = 0x03 if twl else 0x2C
    key = bytes.fromhex(case['key'])
    base = bytes.fromhex(case['base'])
    off, sz = (case['off'], case['sz']) if case['kind'] == 'window' else (0, len(base))
    bio = ReadOnlyBytesIO(base)
    e = cc.make_engine(key, slot)
    if case['late']:
        del e.key_normal[slot]
    under = bio if case['kind'] == 'plain' else SubsectionIO(bio, off, sz)
    v = e.create_ctr_io(slot, under, case['ctr'])
    ct = base[off:off + sz]

    def fail(sig, what, expected, observed):
        ctx.diff('oracle', f'{mode}-{case["kind"]}:shared:{sig}', case, expected, observed, f'{mode} wrapper over a read-only {case["kind"]} file: {what}')
    c = fc.Contract(v, cc.stream_xor(key, case['ctr'], ct, twl), fail, writable=False,
                    probe_outside=(lambda: bio.getvalue()[:off] + b'|' + bio.getvalue()[off + sz:]) if case['kind'] == 'window' else None)
    if case['late']:
        c.read_error = 'Pyctr1'
    ctx.stat('shared_state_histories')
    for op in case['ops']:
        if op[0] in ('k', 'c'):
            newkey = bytes.fromhex(op[1])
            if op[0] == 'k':
                e.set_normal_key(slot, newkey)
                c.content = bytearray(cc.stream_xor(newkey, case['ctr'], ct, twl))
                c.read_error = None
                ctx.stat('rekeyed')
            else:
                other = e.clone()
                other.set_normal_key(slot, newkey)          # a second content installing its own key in its own copy of the engine
                ctx.stat('clone_rekeyed')
            v.seek(v.tell())                                # from here on every read builds its cipher afresh
            continue
        c.step(op)
    if bio.getvalue() != base:
        fail('wrote-underlying', 'the read-only file underneath was changed', 'unchanged', 'changed')


def huge_read_case(ctx, case):
    """one read call that returns far more than any piece size a wrapper might cut its work into, from an unaligned position, in both
    modes (oracle only: the extracted model works on lists)"""
    import io
    from pyctr.fileio import SubsectionIO
    twl = case['twl']
    slot = 0x03 if twl else 0x2C
    key = bytes.fromhex(case['key'])
    n = case['n']
    ct = bytes((i * 31 + 7) & 0xFF for i in range(256)) * (n // 256 + 1)
    ct = ct[:n]
    e = cc.make_engine(key, slot)
    off = 0x23
    bio = io.BytesIO(b'\x11' * off + ct + b'\x22' * 5)
    under = SubsectionIO(bio, off, n) if case['kind'] == 'window' else io.BytesIO(ct)
    v = e.create_ctr_io(slot, under, case['ctr'])
    plain = cc.stream_xor(key, case['ctr'], ct, twl)
    ctx.stat('huge_reads')
    for pos, size in case['reads']:
        v.seek(pos)
        got = v.read(size)
        want = plain[pos:] if size < 0 else plain[pos:pos + size]
        if got != want or v.tell() != pos + len(want):
            k = next((i for i, (a, b) in enumerate(zip(got, want)) if a != b), min(len(got), len(want)))
            ctx.diff('oracle', ('twl' if twl else 'ctr') + '-huge-read', dict(case, pos=pos, size=size), want[k:k + 16].hex(), bytes(got[k:k + 16]).hex(),
                     f'one read({size}) at {pos} of a {n}-byte stream: wrong from byte {k} of the result on (returned {len(got)} bytes, position {v.tell()})')
            return


def sibling_case(ctx, case):
    """two wrappers over two windows of ONE base file, used in turn without seeks in between (and the base file moved by its owner):
    what a wrapper returns depends on its own history only"""
    import io
    import random
    from pyctr.fileio import SubsectionIO
    rng = random.Random(case['seed'])
    twl = case['twl']
    slot = 0x03 if twl else 0x2C
    base = bytes.fromhex(case['base'])
    bio = io.BytesIO(base)
    views = []
    for (off, sz), key, ctr in zip(case['wins'], case['keys'], case['ctrs']):
        e = cc.make_engine(bytes.fromhex(key), slot)
        w = SubsectionIO(bio, off, sz)
        views.append([e.create_ctr_io(slot, w, ctr), cc.stream_xor(bytes.fromhex(key), ctr, base[off:off + sz], twl), 0])
    ctx.stat('sibling_histories')
    for step in range(case['steps']):
        k = rng.randrange(len(views) + 1)
        if k == len(views):
            bio.seek(rng.randrange(len(base) + 1))      # the owner of the base file uses it too
            continue
        v, plain, pos = views[k]
        if rng.random() < 0.2:
            pos = rng.randrange(len(plain) + 1)
            v.seek(pos)
        n = rng.choice([1, 3, 16, 17, 33])
        got = v.read(n)
        want = plain[pos:pos + n]
        views[k][2] = pos + len(want)
        if got != want or v.tell() != pos + len(want):
            ctx.diff('oracle', ('twl' if twl else 'ctr') + '-siblings', dict(case, step=step, view=k), want.hex(), bytes(got).hex(),
                     f'wrapper {k} over its window of a shared base file: read({n}) at {pos} returned other bytes / moved to {v.tell()} '
                     f'after another handle of the same file was used')
            return


def gen_cases(ctx, rng, writes):
    for _ in range(ctx.n(60, 2000)):
        a, b = rng.choice([16, 33, 64, 100]), rng.choice([16, 40, 64])
        gap = rng.choice([0, 0, 5])
        yield dict(sib=True, twl=rng.random() < 0.5, base=pyenv.rbytes(rng, 3 + a + gap + b + 2).hex(), wins=[[3, a], [3 + a + gap, b]],
                   keys=[pyenv.rbytes(rng, 16).hex(), pyenv.rbytes(rng, 16).hex()], ctrs=[rng.getrandbits(100), rng.getrandbits(100)],
                   steps=rng.randrange(4, 14), seed=rng.randrange(1 << 30))
    for _ in range(ctx.n(6, 60)):
        n = rng.choice([0x10000 + 0x40, 0x18000 + 5, 0x28000])
        yield dict(huge=True, twl=rng.random() < 0.6, kind=rng.choice(['plain', 'window']), key=pyenv.rbytes(rng, 16).hex(), ctr=rng.getrandbits(100), n=n,
                   reads=[[rng.choice([1, 5, 16, 17, 0x21]), -1], [rng.choice([3, 0x10, 0x1F]), 0x10000 + rng.choice([1, 16, 0x123])], [0x8003, n]])
    for _ in range(ctx.n(150, 2000)):
        kind = rng.choice(['plain', 'window'])
        sz = rng.choice([0, 1, 16, 17, 33, 48, 100])
        off = rng.choice([1, 16, 23]) if kind == 'window' else 0
        late = rng.random() < 0.3
        ops = fc.gen_ops(rng, sz, rng.randrange(2, 12), writable=False, whences=(0, 0, 1, 2), refused_writes=True, spellings=True)
        for _k in range(rng.randrange(0, 3)):
            ops.insert(rng.randrange(1 if late else 0, len(ops) + 1), [rng.choice('kc'), pyenv.rbytes(rng, 16).hex()])
        if late and not any(o[0] == 'k' for o in ops):
            ops.append(['k', pyenv.rbytes(rng, 16).hex()])
            ops += [['s', 0, 0], ['r', -1]]
        yield dict(shared=True, twl=rng.random() < 0.5, kind=kind, off=off, sz=sz, base=pyenv.rbytes(rng, off + sz + (3 if kind == 'window' else 0)).hex(),
                   key=pyenv.rbytes(rng, 16).hex(), ctr=rng.getrandbits(120), late=late, ops=ops, seed=rng.randrange(1 << 30))
    for _ in range(ctx.n(500, 12000)):
        case = cc.gen_case(rng, writes)
        # keep every reachable position (large cases seek up to 0x4000 + 17*12, writes extend) below 2^128 blocks
        case['ctr'] = min(case['ctr'], (1 << 128) - 1 - 2048)
        yield case


def exhaustive(writes):
    """thorough: (offset mod 16) x (length 0..40) x (preceding op) for both modes and both underlying kinds"""
    import random
    rng = random.Random(7)
    base = pyenv.rbytes(rng, 23 + 64 + 3)
    key = pyenv.rbytes(rng, 16).hex()
    for twl in (False, True):
        for kind in ('plain', 'window'):
            for o in range(0, 33):
                for n in list(range(0, 41, 1 if o < 17 else 5)) + [-1]:
                    for pre in ([], [['s', 3, 0]], [['r', 16]], [['r', 5]], [['s', 1, 0], ['r', 7]]) + \
                               (([['w', 'aabbcc']], [['r', 3], ['w', 'dd' * 17]]) if writes else ()):
                        ops = pre + ([['s', o, 0]] if not pre or pre[0][0] == 's' else [['s', o - 16, 1]]) + [['r', n]]
                        if writes:
                            ops += [['w', '11' * (n % 19 if n > 0 else 2)], ['r', 4]]
                        yield dict(twl=twl, kind=kind, off=23 if kind == 'window' else 0, sz=64 if kind == 'window' else len(base),
                                   base=base.hex(), key=key, ctr=(1 << 64) - 2, ops=ops)


def run_cases(ctx, cases):
    mr = ModelRunner(cc.ORACLES)
    try:
        for case in cases:
            ctx.case(case)
            run_case(ctx, mr, case)
    finally:
        mr.close()


def run_generic(ctx, prop, writes, dyn, rule, trusted, assume):
    proof = prove(prop, ['engine'], dyn,
                  static_deps=['Proofs/CtrProofs.v', 'Proofs/CtrChunkProofs.v', 'Proofs/TwlProofs.v', 'Proofs/WrapInstances.v', 'Proofs/WindowProofs.v',
                               'Spec/StreamCipher.v', 'Env/FileIface.v'])
    run_cases(ctx, gen_cases(ctx, ctx.rng, writes))
    extra = {}
    if not ctx.quick():
        n0 = ctx.evaluations
        run_cases(ctx, exhaustive(writes))
        extra['exhaustive_small_scope_cases'] = ctx.evaluations - n0

    def search():
        c2 = Ctx(prop, 'thorough', ctx.seed + 1)
        c2.findings = ctx.findings
        run_cases(c2, gen_cases(c2, c2.rng, writes))
        bad = [d for d in c2.diffs if d['kind'] == 'oracle']
        return bad[0] if bad else None

    return finish(ctx, proof, rule, trusted, assume, extra_cov=extra, search=search)


def run(ctx):
    return run_generic(ctx, PROP, WRITES, DYN,
                       'seeded histories (1-12 ops) of seek (whence 0/1/2, targets at every residue mod 16, inside/at/after the end) and '
                       'read (-1, 0, sub-block, straddling, over-long, negative) on create_ctr_io for keyslot 0x2C (3DS) and 0x03 (DSi), over '
                       'io.BytesIO and over SubsectionIO at a non-zero offset; counters incl. 0, carries across bit 64, near 2^128; '
                       'thorough adds the exhaustive offset x length x preceding-op grid',
                       TRUSTED, ASSUME)


def replay(ctx, path):
    with open(path) as f:
        payload = json.load(f)
    run_cases(ctx, [payload['case']])
    for d in ctx.diffs:
        print('REPRODUCED:', d['what'], 'expected', d['expected'], 'observed', d['observed'])
    return 1 if ctx.diffs else 0
