"""C02 -- random-access AES-CBC reads equal whole-stream decryption; the wrapper never writes."""
import io
import json

from Cryptodome.Cipher import AES

from ..core import Ctx, ModelRunner, prove, finish, unhx, hx, zhex
from .. import pyenv, filecontract as fc, ctrcommon as cc

TRUSTED = [
    'Coq 8.16.1 kernel (coqc); no axioms; AES decryption is an uninterpreted Section variable D with the stated hypothesis length (D k b) = 16 for 16-byte b',
    'translator py2gallina.py: the `before` expression of CBCFileIO.read regenerated each run',
    'hand models Env/PyFile.v, Model/Window.v, Env/Cipher.v (CBC decrypt: ValueError on bad lengths), Model/CbcIO.v; tied by the correspondence run',
    'extraction ExtrOcamlBasic only; AES answered by PyCryptodome ECB through the call-back pipe',
    'oracle: PyCryptodome MODE_CBC over the whole stream',
]
ASSUME = ['ciphertext length is a multiple of 16 and the IV has 16 bytes (as in the property)',
          'underlying file: io.BytesIO or SubsectionIO over io.BytesIO with a write log; locks ignored (C15)']


class LoggedBytesIO(io.BytesIO):
    writes = 0

    def write(self, b):
        LoggedBytesIO.writes += 1
        return super().write(b)

    def truncate(self, *a):
        LoggedBytesIO.writes += 1
        return super().truncate(*a)


def gen_case(rng):
    kind = rng.choice(['plain', 'window'])
    nblocks = rng.choice([0, 1, 2, 3, 3, 4, 6])
    sz = 16 * nblocks
    off = rng.choice([1, 16, 23, 32]) if kind == 'window' else 0
    extra = rng.choice([0, 3, 16]) if kind == 'window' else 0
    base = pyenv.rbytes(rng, off + sz + extra)
    ops = []
    for _ in range(rng.randrange(1, 12)):
        r = rng.random()
        if r < 0.5:
            ops.append(['r', rng.choice([-1, -1, 0, 1, 2, 15, 16, 17, 31, 33, sz, sz + 5, rng.randrange(0, sz + 2), -3])])
        elif r < 0.92:
            wh = rng.choice([0, 0, 0, 1, 1, 2])
            if wh == 0:
                o = max(0, rng.choice([0, 1, 15, 16, 17, sz - 1, sz, sz + 1, sz + 16, sz + 21, rng.randrange(0, sz + 2)]))
            elif wh == 1:
                o = rng.choice([-17, -16, -1, 0, 1, 15, 16, 17, 40])
            else:
                o = rng.choice([-sz, -17, -16, -1, 0, 1, 16, 19])
            ops.append(['s', o, wh])
        else:
            ops.append(['t'])
    # the engine is shared state: the key of the slot may arrive late (reads before that are refused and consume nothing) and may be
    # replaced between two reads (every read decrypts under the key the engine holds for the slot at that moment)
    late = rng.random() < 0.15
    if late or rng.random() < 0.2:
        for _ in range(rng.randrange(1, 3)):
            ops.insert(rng.randrange(1 if late else 0, len(ops) + 1) if ops else 0, ['k', pyenv.rbytes(rng, 16).hex()])
        if late:
            ops.insert(0, ['r', rng.choice([1, 10, 16, -1])])
            if rng.random() < 0.5:
                ops.insert(0, ['s', rng.choice([0, 5, 16, 20]), 0])
    # any keyslot: CBC is the same cipher in all of them (the DSi slots 0-3 only differ for CTR)
    return dict(late=late, kind=kind, off=off, sz=sz, base=base.hex(), key=pyenv.rbytes(rng, 16).hex(), iv=pyenv.rbytes(rng, 16).hex(), ops=ops,
                slot=rng.choice([0x40, 0x40, 0x00, 0x01, 0x03, 0x04, 0x2C, 0x3D, 0x11]))


def run_case(ctx, mr, case):
    from pyctr.fileio import SubsectionIO
    base = bytes.fromhex(case['base'])
    key, iv = bytes.fromhex(case['key']), bytes.fromhex(case['iv'])
    off, sz = case['off'], case['sz']
    bio = LoggedBytesIO(base)
    LoggedBytesIO.writes = 0
    slot = case.get('slot', 0x40)
    e = cc.make_engine(key, slot)
    late = case.get('late', False)
    if late:
        del e.key_normal[slot]
    under = bio if case['kind'] == 'plain' else SubsectionIO(bio, off, sz)
    v = e.create_cbc_io(slot, under, iv)
    ct = base[off:off + sz] if case['kind'] == 'window' else base
    plain = AES.new(key, AES.MODE_CBC, iv).decrypt(ct) if ct else b''

    def fail(sig, what, expected, observed):
        ctx.diff('oracle', f'cbc-{case["kind"]}:{sig}', case, expected, observed, f'CBC wrapper over {case["kind"]} file: {what}')

    c = fc.Contract(v, plain, fail, writable=False)
    c.flags()
    if late:
        c.read_error = 'Pyctr' + str(__import__('harness.kernels', fromlist=['x']).PYCTR_ERRS['KeyslotMissingError'])
    rekeyed = late
    for op in case['ops']:
        if op[0] == 'k':
            e.set_normal_key(slot, bytes.fromhex(op[1]))
            c.content = bytearray(AES.new(bytes.fromhex(op[1]), AES.MODE_CBC, iv).decrypt(ct) if ct else b'')
            c.read_error = None
            rekeyed = True
            ctx.stat('cbc_rekey')
            continue
        c.step(op)
    res = c.results
    try:
        if v.writable() is not False:
            fail('writable', 'writable() is not False', False, True)
    except Exception as ex:
        fail('writable-raises', 'writable() raised', False, pyenv.errname(ex))
    try:
        v.write(b'x')
        fail('write-accepted', 'write() was accepted by the read-only wrapper', 'an error', 'accepted')
    except Exception:
        pass
    # every other way the file API has of changing a file: whatever the wrapper answers, the underlying file stays as it was
    for name, args in (('truncate', ()), ('truncate', (max(0, sz // 2),)), ('truncate', (sz + 16,)), ('writelines', ([b'xy'],))):
        try:
            getattr(v, name)(*args)
        except Exception:
            pass
    try:
        v.flush()
    except Exception as ex:
        fail('flush-raises', 'flush() raised', None, pyenv.errname(ex))
    if LoggedBytesIO.writes or bio.getvalue() != base:
        fail('wrote-underlying', 'the wrapper wrote to the underlying file', 'no writes', LoggedBytesIO.writes)
    ctx.stat('cbc_' + case['kind'])
    if rekeyed:
        return              # the model line carries one key; histories with a key change are judged by the oracle alone
    line = (f'cbc {case["kind"]} {zhex(off)} {zhex(sz)} h:{case["key"]} h:{case["iv"]} h:{case["base"]} '
            + ' '.join(fc.op_line(o) for o in case['ops']))
    out = mr.ask(line)
    mres, mfinal = out.split(' | ')
    mres = mres.split(' ') if mres else []
    if mres != res:
        k = next((i for i, (a, b) in enumerate(zip(mres, res)) if a != b), None)
        ctx.diff('corr', 'cbc-model', case, mres[k] if k is not None else '?', res[k] if k is not None else '?',
                 f'CBC wrapper: Coq model and implementation differ at op {k}')


def exhaustive():
    import random
    rng = random.Random(11)
    key, iv = pyenv.rbytes(rng, 16).hex(), pyenv.rbytes(rng, 16).hex()
    base = pyenv.rbytes(rng, 23 + 48 + 3)
    for kind in ('plain', 'window'):
        b = base[23:23 + 48] if kind == 'plain' else base
        for o in range(0, 70):
            for n in range(-1, 41):
                yield dict(kind=kind, off=23 if kind == 'window' else 0, sz=48, base=b.hex(), key=key, iv=iv,
                           ops=[['s', min(o, 48) if kind == 'window' else o, 0]] + ([['s', o - 48, 1]] if kind == 'window' and o > 48 else []) + [['r', n], ['r', 5]])


def run_cases(ctx, cases):
    mr = ModelRunner(cc.ORACLES)
    try:
        for case in cases:
            ctx.case(case)
            run_case(ctx, mr, case)
    finally:
        mr.close()


def run(ctx):
    proof = prove('C02', ['engine'], ['C02_props'],
                  static_deps=['Proofs/CbcProofs.v', 'Proofs/CbcChunkProofs.v', 'Proofs/WindowProofs.v', 'Spec/StreamCipher.v', 'Env/FileIface.v'])
    run_cases(ctx, (gen_case(ctx.rng) for _ in range(ctx.n(600, 20000))))
    extra = {}
    if not ctx.quick():
        n0 = ctx.evaluations
        run_cases(ctx, exhaustive())
        extra['exhaustive_small_scope_cases'] = ctx.evaluations - n0

    def search():
        c2 = Ctx('C02', 'thorough', ctx.seed + 1)
        run_cases(c2, (gen_case(c2.rng) for _ in range(20000)))
        bad = [d for d in c2.diffs if d['kind'] == 'oracle']
        return bad[0] if bad else None

    return finish(ctx, proof,
                  'seeded histories (1-11 ops) of seek (whence 0/1/2; inside the first block, mid-block, at and past the end) and read '
                  '(-1, 0, sub-block, straddling, over-long) on create_cbc_io over io.BytesIO and over SubsectionIO at a non-zero offset, '
                  '0-6 blocks; write log of the base file must stay empty; thorough adds every (offset 0..69) x (size -1..40) pair',
                  TRUSTED, ASSUME, extra_cov=extra, search=search)


def replay(ctx, path):
    with open(path) as f:
        payload = json.load(f)
    run_cases(ctx, [payload['case']])
    for d in ctx.diffs:
        print('REPRODUCED:', d['what'], 'expected', d['expected'], 'observed', d['observed'])
    return 1 if ctx.diffs else 0
