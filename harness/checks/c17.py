"""C17 -- save containers: verified reads return the active, authentic data or nothing."""
import hashlib
import json
import random

from ..core import Ctx, ModelRunner, prove, finish, hx, zhex
from .. import pyenv, filecontract as fc, savecommon as sc
from ..builders import save as SV

TRUSTED = [
    'Coq 8.16.1 kernel (coqc); no axioms; SHA-256 uninterpreted',
    'hand model coq/Model/Ivfc.v of IVFCHashTree.get_block / _get_block_internal (per-level verification caches, deep verification) and of '
    'the DPFS active-bit selection, tied by the oracle runs below (the model is the specification the reader is compared with through the '
    'independent verifier of harness/builders/save.py)',
    'hand models coq/Model/Blocks.v, Dpfs.v, IvfcRead.v of the block-wise reads (DPFSLevel3.get_data, DPFSLevel3FileIO.read, DPFSLevel1/2 '
    'construction, IVFCLevel4Reader.read), tied by the correspondence runs (same reads on the raw two-copy areas / on hand-made trees, clean '
    'and corrupted); translator py2gallina.py: get_block_range and get_active_bit regenerated each run and proved equal to the model definitions',
    'independent builder and verifier harness/builders/save.py (hashlib only) = ground truth for active copies and chain validity',
]
ASSUME = [
    'the file does not change while a reader is open (the tamper cases corrupt the image before it is opened, then vary the read history)',
    'block-size exponents 7..12 (small: 7..9 in the quick tier), 1-40 level-4 blocks, one or two partitions',
]


def read_history(rng, size, bs, n):
    ops = []
    for _ in range(n):
        b = rng.randrange(0, max(1, (size + bs - 1) // bs))
        o = min(size, max(0, b * bs + rng.choice([0, 0, 1, bs - 1, -1])))
        ops += [['s', o, 0], ['r', rng.choice([1, bs, bs + 1, 2 * bs, 17])]]
    return ops


def run_case(ctx, mr, case):
    from pyctr.type.save.common import CorruptPartitionError
    geom = case['geom']
    img, info, payloads = sc.build(geom)
    rng = random.Random(geom['seed'] ^ 0x77)
    ctx.stat('kind_' + geom['kind'])
    try:
        c, bio = sc.open_container(img, geom['kind'])
    except Exception as ex:
        ctx.diff('oracle', 'save-open-raises', case, 'a reader', pyenv.errname(ex) + ': ' + str(ex)[:80], 'well-formed container rejected')
        return
    for pi, ip in enumerate(info['partitions']):
        part = c.partitions[pi]
        # 1. the data view = active copy selected block by block
        def fail1(sig, what, expected, observed, pi=pi):
            ctx.diff('oracle', 'dpfs-view:' + sig, dict(case, part=pi), str(expected)[:60], str(observed)[:60], f'DPFS active view of partition {pi}: {what}')
        c1 = fc.Contract(part.dpfs_lv3_file, ip['dpfs_view'], fail1, writable=False)
        c1.run(fc.gen_ops(rng, len(ip['dpfs_view']), 6, writable=False, whences=(0, 0, 1, 2)))
        # 2. the verified view = payload
        r = sc.lv4_reader(c, pi)
        def fail2(sig, what, expected, observed, pi=pi):
            ctx.diff('oracle', 'lv4-view:' + sig, dict(case, part=pi), str(expected)[:60], str(observed)[:60], f'verified level-4 view of partition {pi}: {what}')
        c2 = fc.Contract(r, payloads[pi], fail2, writable=False)
        bs4 = ip['block_sizes'][3]
        c2.run(fc.gen_ops(rng, len(payloads[pi]), 6, writable=False, whences=(0, 0, 1, 2)) + read_history(rng, len(payloads[pi]), bs4, 3))
        ctx.stat('clean_views')
        # 3. the DPFS tree has a Coq model (Model/Dpfs.v, proved to return the slice of the active view): same reads on the raw areas
        (o1, s1), (o2, s2), (o3, s3) = ip['dpfs_areas']
        reads = []
        for _ in range(6):
            pos = rng.choice([0, 1, rng.randrange(s3 + 1), max(0, s3 - 1), s3, s3 + 3])
            reads.append((pos, rng.choice([-1, 0, 1, 2, ip['dpfs_block_sizes'][2], ip['dpfs_block_sizes'][2] + 1, rng.randrange(1, 2 * s3 + 2), s3])))
        impl = []
        f3 = part.dpfs_lv3_file
        for pos, n in reads:
            f3.seek(pos)
            got = f3.read(n)
            impl.append(hx(got) if got else '-')
        line = 'dpfsread %s %x %s %s %s %s %s ' % (hx(img[o1:o1 + 2 * s1]), ip['dpfs_selector'], hx(img[o2:o2 + 2 * s2]), zhex(ip['dpfs_block_sizes'][1]),
                                                 hx(img[o3:o3 + 2 * s3]), zhex(s3), zhex(ip['dpfs_block_sizes'][2])) + \
               ' '.join('%s,%s' % (zhex(p_), zhex(n_)) for p_, n_ in reads)
        if s3 > 0x6000:
            # the extracted model works on lists: level files beyond a few thousand bytes are left to the oracle above
            ctx.stat('dpfs_model_skipped_large')
            continue
        out = mr.ask(line).split(' ')
        if out != impl:
            k = next((i for i, (a, b) in enumerate(zip(out, impl)) if a != b), 0)
            ctx.diff('corr', 'dpfs-read-model', dict(case, part=pi, read=reads[k]), out[k][:60], impl[k][:60],
                     f'DPFS level-3 file: Coq model and implementation differ for seek({reads[k][0]}); read({reads[k][1]})')
        ctx.stat('dpfs_model_reads', len(reads))
    c.close()
    sc.heal_neighbour_case(ctx, case, rng, img, info, payloads, geom)
    if rng.random() < 0.5:
        sc.positioned_case(ctx, case, random.Random(geom['seed'] ^ 0x51A7), img, info, payloads, geom, write=False)
    # 3. corruption x read history
    for _ in range(case['corruptions']):
        pi = rng.randrange(len(info['partitions']))
        ip = info['partitions'][pi]
        what = rng.choice(['data', 'data', 'hash3', 'hash2', 'hash1', 'master', 'blank3', 'blank2', 'blank1'])
        if what == 'data':
            b = rng.randrange(ip['level_blocks'][3])
            segs = ip['lv4_segments'][b]
        elif what == 'master':
            segs = [ip['master_hash_range']]
        else:
            lv = int(what[-1])
            b = rng.randrange(ip['level_blocks'][lv - 1])
            segs = ip['hash_segments'][lv][b]
        off, ln = rng.choice(segs)
        if ln == 0:
            continue
        pos = off + rng.randrange(ln)
        bad = bytearray(img)
        if what.startswith('blank'):
            # an uninitialised (all-zero) hash slot inside an otherwise authentic hash level: nothing beneath it is authenticated
            if ln < 32:
                continue
            pos = off + 32 * rng.randrange(ln // 32)
            if bytes(bad[pos:pos + 32]) == bytes(32):
                continue
            bad[pos:pos + 32] = bytes(32)
        else:
            bad[pos] ^= 1 << rng.randrange(8)
        bad = bytes(bad)
        if what == 'master':
            # the master hash lives in the partition table: the header hash no longer matches -> the container must be refused
            try:
                sc.open_container(bad, geom['kind'])
                ctx.diff('oracle', 'table-hash-accepted', dict(case, pos=pos), 'CorruptPartitionError', 'opened', 'container whose active table does not match the header hash was accepted')
            except CorruptPartitionError:
                ctx.stat('table_rejects')
            except Exception as ex:
                ctx.diff('oracle', 'table-hash-error', dict(case, pos=pos), 'CorruptPartitionError', pyenv.errname(ex), 'wrong error for a table/header hash mismatch')
            continue
        want, invalid, res = sc.verified_view(bad, info, pi)
        ctx.stat('corruptions_' + what)
        try:
            c, bio = sc.open_container(bad, geom['kind'])
        except Exception as ex:
            ctx.diff('oracle', 'save-open-raises', dict(case, pos=pos), 'a reader', pyenv.errname(ex), 'corrupted data/hash block made the container unopenable')
            continue
        r = sc.lv4_reader(c, pi)
        if what == 'data':
            # the verified reader in every spelling its constructor has (verification is on in all of them; a damaged DATA block fails
            # its own hash, so the shallow check catches it as well)
            from pyctr.type.save.partdesc.ivfc import IVFCLevel4Reader
            tree = c.partitions[pi].ivfc_hash_tree
            spell = rng.randrange(6)
            ctx.stat('lv4_reader_spelling_%d' % spell)
            r = (r, IVFCLevel4Reader(tree), IVFCLevel4Reader(tree, True), IVFCLevel4Reader(tree, True, True), IVFCLevel4Reader(tree, True, False),
                 IVFCLevel4Reader(tree, deep_verify=False))[spell]
        bs4 = ip['block_sizes'][3]
        hist = read_history(rng, len(want), bs4, rng.choice([0, 1, 3, 6]))
        # prior history: read other blocks first (populates the verification caches), results must already be right
        def fail3(sig, what_, expected, observed, pi=pi, pos=pos, hist=hist):
            ctx.diff('oracle', 'tamper:' + sig, dict(case, part=pi, pos=pos, history=hist, corrupted=what), str(expected)[:60], str(observed)[:60],
                     f'after corrupting {what} (byte {pos:#x}): {what_}')
        c3 = fc.Contract(r, want, fail3, writable=False)
        c3.run(hist)
        c.close()


def tree_case(ctx, mr, case):
    """correspondence: the Coq get_block model against IVFCHashTree.get_block on hand-made trees (incl. corrupted and
    uninitialised hashes) under random request histories"""
    import io
    from ..core import hx, zhex
    from pyctr.type.save.partdesc.ivfc import IVFCHashTree, IVFC
    from pyctr.type.save.partdesc.common import LevelData
    rng = random.Random(case['tseed'])
    logs = [rng.choice([5, 6, 7]) for _ in range(3)] + [rng.choice([5, 6, 7, 9])]
    bss = [1 << x for x in logs]
    n4 = rng.randrange(1, 12)
    l4 = pyenv.rbytes(rng, n4 * bss[3] - rng.choice([0, 0, 3]))
    levels = [None, None, None, l4]
    for li in (2, 1, 0):
        below, bsb = levels[li + 1], bss[li + 1]
        hs = b''.join(hashlib.sha256(below[i:i + bsb].ljust(bsb, b'\0')).digest() for i in range(0, len(below), bsb))
        levels[li] = hs
    master = [hashlib.sha256(levels[0][i:i + bss[0]].ljust(bss[0], b'\0')).digest() for i in range(0, len(levels[0]), bss[0])]
    # damage: flip bytes, blank some hashes
    for _ in range(rng.choice([0, 1, 2, 3])):
        li = rng.randrange(4)
        b = bytearray(levels[li])
        k = rng.randrange(len(b))
        if rng.random() < 0.3 and li < 3:
            k -= k % 32
            b[k:k + 32] = bytes(32)
        else:
            b[k] ^= 1 << rng.randrange(8)
        levels[li] = bytes(b)
    if rng.random() < 0.2:
        i = rng.randrange(len(master))
        master[i] = bytes(x ^ 1 for x in master[i])
    directed = None
    if rng.random() < 0.3:
        # an empty hash slot in an upper level of an otherwise untouched subtree, then every block beneath it is requested
        li = rng.choice([0, 1])
        b = bytearray(levels[li])
        k = 32 * rng.randrange(len(b) // 32)
        b[k:k + 32] = bytes(32)
        levels[li] = bytes(b)
        directed = li
        # ... and the levels above are re-hashed, so the block holding the empty slot is itself AUTHENTIC (a never-written region of a
        # formatted save): what lies beneath the slot is a self-consistent but unauthenticated subtree
        for lj in range(li - 1, -1, -1):
            below, bsb = levels[lj + 1], bss[lj + 1]
            levels[lj] = b''.join(hashlib.sha256(below[i:i + bsb].ljust(bsb, b'\0')).digest() for i in range(0, len(below), bsb))
        master = [hashlib.sha256(levels[0][i:i + bss[0]].ljust(bss[0], b'\0')).digest() for i in range(0, len(levels[0]), bss[0])]
    offs, fpdata = [], b''
    for d in levels:
        offs.append(len(fpdata))
        fpdata += d
    ivfc = IVFC(master_hash_size=32 * len(master), descriptor_size=0x78,
                **{f'lv{i + 1}': LevelData(offset=offs[i], size=len(levels[i]), block_size_log2=logs[i], block_size=bss[i]) for i in range(4)})
    tree = IVFCHashTree(io.BytesIO(fpdata), ivfc, list(master))
    reqs = []
    for _ in range(rng.randrange(1, 14)):
        li = rng.choice([3, 3, 3, 2, 1, 0])
        nb = (len(levels[li]) + bss[li] - 1) // bss[li]
        reqs.append((li, rng.randrange(nb)))
    if directed is not None:
        for li in (directed + 2, 3):
            nb = (len(levels[li]) + bss[li] - 1) // bss[li]
            reqs += [(li, b) for b in range(min(nb, 24))]
    impl = []
    for li, b in reqs:
        if rng.random() < 0.35:
            # a look at some block of some level with the one-level check only (a documented option of get_block): whatever it
            # answers, it is not an answer to the deep question and must not become one
            lj = rng.choice([1, 1, 2, 0, 3])
            nbj = (len(levels[lj]) + bss[lj] - 1) // bss[lj]
            try:
                tree.get_block(lj + 1, rng.randrange(nbj), verify=True, deep_verify=False)
            except Exception:
                pass
            ctx.stat('one_level_lookups')
        v = tree.get_block(li + 1, b, verify=True, deep_verify=True)[1]
        impl.append('T' if v is True else 'F' if v is False else 'N')
    line = 'ivfc ' + ' '.join(zhex(b) for b in bss) + ' ' + ' '.join(hx(d) for d in levels) + ' ' + hx(b''.join(master)) + ' ' + \
           ' '.join(f'{li},{zhex(b)}' for li, b in reqs)
    out = mr.ask(line).split(' ')
    ctx.stat('tree_histories')
    if out != impl:
        ctx.diff('corr', 'ivfc-getblock-model', case, out, impl, 'IVFC get_block: Coq model and implementation statuses differ')
    # byte-level reads of the verified view (Model/IvfcRead.v, proved to return the slice of "stored bytes where valid, filler elsewhere")
    from pyctr.type.save.partdesc.ivfc import IVFCLevel4Reader
    n4 = len(levels[3])
    for verify in (True, False):
        rd = IVFCLevel4Reader(IVFCHashTree(io.BytesIO(fpdata), ivfc, list(master)), verify=verify, deep_verify=True)
        reads = [(rng.choice([0, 1, rng.randrange(n4 + 1), n4 - 1, n4, n4 + 2, rng.randrange(n4 + 1) // bss[3] * bss[3]]),
                  rng.choice([-1, 0, 1, bss[3] - 1, bss[3], bss[3] + 1, rng.randrange(1, n4 + 3), 3])) for _ in range(5)]
        rimpl = []
        for pos, n in reads:
            rd.seek(pos)
            got = rd.read(n)
            rimpl.append(hx(got) if got else '-')
        line = 'lv4read %d ' % verify + ' '.join(zhex(b) for b in bss) + ' ' + ' '.join(hx(d) for d in levels) + ' ' + hx(b''.join(master)) + ' ' + \
               ' '.join('%s,%s' % (zhex(p_), zhex(n_)) for p_, n_ in reads)
        rout = mr.ask(line).split(' ')
        ctx.stat('lv4_model_reads', len(reads))
        if rout != rimpl:
            k = next((i for i, (a, b) in enumerate(zip(rout, rimpl)) if a != b), 0)
            ctx.diff('corr', 'lv4-read-model', dict(case, verify=verify, read=reads[k]), rout[k][:60], rimpl[k][:60],
                     f'IVFC level-4 reader (verify={verify}): Coq model and rimplementation differ for seek({reads[k][0]}); read({reads[k][1]})')
    # the property itself, from the bytes alone: valid <=> every stored hash on the path up to the master hash matches (an empty slot
    # matches nothing)
    def authentic(li, b):
        blk = levels[li][b * bss[li]:(b + 1) * bss[li]].ljust(bss[li], b'\0')
        h = hashlib.sha256(blk).digest()
        if li == 0:
            return b < len(master) and master[b] == h
        stored = levels[li - 1][b * 32:b * 32 + 32]
        return stored == h and authentic(li - 1, (b * 32) // bss[li - 1])
    # ... and byte by byte: a verified read shows the stored bytes of the blocks whose chain is intact and filler for every other block
    nb4 = (n4 + bss[3] - 1) // bss[3]
    view = b''.join((levels[3][b * bss[3]:(b + 1) * bss[3]] if authentic(3, b) else b'\xDD' * len(levels[3][b * bss[3]:(b + 1) * bss[3]])) for b in range(nb4))
    rd = IVFCLevel4Reader(IVFCHashTree(io.BytesIO(fpdata), ivfc, list(master)), verify=True, deep_verify=True)
    for _ in range(4):
        pos = rng.choice([0, rng.randrange(n4 + 1), rng.randrange(n4 + 1) // bss[3] * bss[3]])
        n = rng.choice([-1, 1, bss[3], bss[3] + 1, rng.randrange(1, n4 + 2)])
        rd.seek(pos)
        got = rd.read(n)
        want = view[pos:] if n < 0 else view[pos:pos + n]
        if got != want:
            k = next((i for i, (x, y) in enumerate(zip(got, want)) if x != y), min(len(got), len(want)))
            ctx.diff('oracle', 'lv4-read-bytes', dict(case, read=[pos, n]), want[k:k + 8].hex(), got[k:k + 8].hex(),
                     f'verified level-4 read({n}) at {pos}: byte {pos + k} (block {(pos + k) // bss[3]}) is not ' +
                     ('the stored byte of an authentic block' if authentic(3, (pos + k) // bss[3]) else 'filler although the chain of its block is not intact'))
            break
    for (li, b), st in zip(reqs, impl):
        if (st == 'T') != authentic(li, b):
            ctx.diff('oracle', 'tree-status', dict(case, level=li + 1, block=b), 'valid' if authentic(li, b) else 'not valid', st,
                     f'IVFC level {li + 1} block {b}: reported {st} but its hash chain up to the master hash is ' + ('intact' if authentic(li, b) else 'not intact'))
            break


def gen_cases(ctx, rng):
    for _ in range(ctx.n(60, 1500)):
        yield dict(geom=sc.gen_geom(rng, small=ctx.quick()), corruptions=rng.choice([4, 8, 12]))
    for _ in range(ctx.n(150, 4000)):
        yield dict(tseed=rng.randrange(1 << 30))


def run_cases(ctx, cases):
    from ..core import hx, unhx
    mr = ModelRunner({'sha256': lambda h: hx(hashlib.sha256(unhx(h)).digest())})
    try:
        for case in cases:
            ctx.case(case)
            if 'tseed' in case:
                tree_case(ctx, mr, case)
            else:
                run_case(ctx, mr, case)
    finally:
        mr.close()


def run(ctx):
    proof = prove('C17', ['util', 'savecommon', 'dpfs'], ['C17_props'], static_deps=['Proofs/IvfcProofs.v', 'Proofs/BlocksProofs.v', 'Proofs/DpfsProofs.v', 'Proofs/IvfcReadProofs.v'])
    run_cases(ctx, gen_cases(ctx, ctx.rng))

    def search():
        c2 = Ctx('C17', 'thorough', ctx.seed + 1)
        run_cases(c2, (dict(geom=sc.gen_geom(c2.rng), corruptions=12) for _ in range(300)))
        bad = [d for d in c2.diffs if d['kind'] == 'oracle']
        return bad[0] if bad else None

    return finish(ctx, proof,
                  'generated DIFF / DISA (1 or 2 partitions) containers: block exponents 7-12 per level, random DPFS bitmaps and selector, both '
                  'active tables, internal / external level 4, 1-40 level-4 blocks, garbage in every inactive copy and in slack; the DPFS view and '
                  'the verified level-4 view under seek/read histories; single-bit corruptions of active data blocks, of hash blocks of levels '
                  '1-3 and of the master hashes, each combined with a random prior read history on a fresh reader, compared with an independent '
                  'verifier (filler exactly in the blocks whose chain is broken)',
                  TRUSTED, ASSUME, search=search)


def replay(ctx, path):
    with open(path) as f:
        payload = json.load(f)
    case = {k: v for k, v in payload['case'].items() if k in ('geom', 'corruptions')}
    run_cases(ctx, [case])
    for d in ctx.diffs:
        print('REPRODUCED:', d['what'], 'expected', d['expected'], 'observed', d['observed'])
    return 1 if ctx.diffs else 0
