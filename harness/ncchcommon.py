"""Shared NCCH case generation / opening for C03, C04, C05, C10."""
import io
import random

from . import pyenv
from .builders import ncch as N, romfs as R

SEC_NAMES = ['header', 'extheader', 'logo', 'plain', 'exefs', 'romfs']


def sec_enum(name):
    from pyctr.type.ncch import NCCHSection
    return {'header': NCCHSection.Header, 'extheader': NCCHSection.ExtendedHeader, 'logo': NCCHSection.Logo,
            'plain': NCCHSection.Plain, 'exefs': NCCHSection.ExeFS, 'romfs': NCCHSection.RomFS}[name]


def keyx_table(b9seed):
    """KeyX of the NCCH slots as the engine will see them: 0x2C from the synthetic bootROM blob, the rest are constants"""
    pyenv.install_fake_boot9(b9seed)
    from pyctr.crypto import engine as E
    kx = {0x2C: int.from_bytes(E._b9_keyblob['retail'][0x170:0x180], 'big')}
    kx.update(RETAIL_KEY_X)
    return kx


# KeyX of the NCCH slots that are not in the boot ROM (retail), as published (3dbrew: AES Registers / NCCH): a table of the harness's
# own, so that a mix-up in the library's table shows
RETAIL_KEY_X = {
    0x25: 0xCEE7D8AB30C00DAE850EF5E382AC5AF3,       # 7.x
    0x18: 0x82E9C9BEBFB8BDB875ECC0A07D474374,       # New3DS 9.3
    0x1B: 0x45AD04953992C7C893724A9A7BCE6182,       # New3DS 9.6
}


EXEFS_NAMES = ['.code', 'icon', 'banner', 'logo', 'extra', 'a', 'b.c', 'data0', 'zz', 'x1']


def gen_spec(rng, small=False):
    """a random NCCH description (JSON-able; bytes as hex); sizes kept small"""
    method = rng.choice([0, 0, 1, 0x0A, 0x0B])
    r = rng.random()
    mode = 'normal'
    if r < 0.12:
        mode = 'fixed'
    elif r < 0.24:
        mode = 'nocrypto'
    elif r < 0.36:
        mode = 'assume'
    uses_seed = mode in ('normal', 'assume') and rng.random() < 0.4
    nfiles = rng.choice([0, 1, 2, 3, 3, 4, 6, 10]) if not small else rng.choice([1, 2, 3])
    names = rng.sample(EXEFS_NAMES, nfiles)
    files = []
    for nm in names:
        size = rng.choice([0, 1, 0x1FF, 0x200, 0x201, 0x400, rng.randrange(1, 0x500), 0x200, 0x600 if not small else 0x200])
        files.append([nm, size])
    spec = dict(
        b9seed=rng.randrange(1 << 20), dseed=rng.randrange(1 << 30), method=method, mode=mode, uses_seed=uses_seed,
        # title category: any 16-bit word; the System bit (0x10) alone or together with other bits decides the fixed key
        program_id=(0x0004 << 48) | (rng.choice([0x0000, 0x0010, 0x0010, 0x0030, 0x001B, 0x009B, 0x00DB, 0x0138, 0x0002, 0x8000, 0x800F,
                                                 rng.getrandbits(16)]) << 32) | rng.getrandbits(32),
        partition_id=rng.getrandbits(64),
        extheader=rng.random() < 0.6, logo=rng.choice([None, 0x10, 0x200, 0x3FF]), plain=rng.choice([None, 5, 0x200]),
        exefs=None if (rng.random() < 0.1 and not small) else files, slots=rng.sample(range(10), nfiles),
        romfs=rng.random() < (0.5 if not small else 0.3),
        gaps={k: rng.choice([0, 0, 1, 2]) for k in ('logo', 'plain', 'exefs', 'romfs', 'end')},
        order=rng.sample(['logo', 'plain', 'exefs', 'romfs'], 4),
    )
    return spec


def build(spec):
    """-> (image bytes, info, open kwargs)"""
    rng = random.Random(spec['dseed'])
    kx = keyx_table(spec['b9seed'])
    b = dict(key_y=pyenv.rbytes(rng, 16), keyx=kx, program_id=spec['program_id'], partition_id=spec['partition_id'],
             crypto_method=spec['method'], fixed_key=spec['mode'] == 'fixed', no_crypto=spec['mode'] == 'nocrypto',
             uses_seed=spec['uses_seed'], seed=pyenv.rbytes(rng, 16), store_plain=spec['mode'] == 'assume',
             gaps=spec['gaps'], order=spec['order'], signature=pyenv.rbytes(rng, 0x100), filler=bytes([rng.getrandbits(8)]))
    if spec['extheader']:
        b['extheader'] = pyenv.rbytes(rng, 0x800)
    if spec['logo'] is not None:
        b['logo'] = pyenv.rbytes(rng, spec['logo'])
    if spec['plain'] is not None:
        b['plain'] = pyenv.rbytes(rng, spec['plain'])
    if spec['exefs'] is not None:
        b['exefs_files'] = [(nm, pyenv.rbytes(rng, sz)) for nm, sz in spec['exefs']]
        if spec.get('exefs_data'):
            # contents given outright (hex), e.g. a compressed .code
            b['exefs_files'] = [(nm, bytes.fromhex(spec['exefs_data'][nm]) if nm in spec['exefs_data'] else d) for nm, d in b['exefs_files']]
        b['exefs_slots'] = spec['slots']
        if spec.get('exefs_overlap'):
            b['exefs_overlap'] = spec['exefs_overlap']
    if spec['romfs']:
        tree = R.random_tree(rng, max_depth=2, max_children=3, max_file=200, unicode_names=False)
        lv3, _ = R.pack_lv3(tree)
        img, _ = R.wrap_ivfc(lv3, block_log2=rng.choice([9, 12]))
        b['romfs'] = img
        b['romfs_tree'] = tree
    image, info = N.build_ncch({k: v for k, v in b.items() if k != 'romfs_tree'})
    info['romfs_tree'] = b.get('romfs_tree')
    info['seed'] = b['seed'] if spec['uses_seed'] else None
    kwargs = dict(assume_decrypted=(spec['mode'] == 'assume'))
    if spec['uses_seed']:
        kwargs['seed'] = b['seed']
    return image, info, kwargs


def open_reader(image, kwargs, start=0, **extra):
    from pyctr.crypto import seeddb
    from pyctr.type.ncch import NCCHReader
    seeddb._seeds.clear()
    seeddb._loaded_from_default_paths = True     # never look for a seeddb.bin on disk
    # the container sits inside a larger file: bytes in front (the reader is handed the file standing at the container) and behind
    bio = io.BytesIO(b'\xA5' * start + image + b'\x5C\xC5' * (0x180 if start else 0))
    bio.seek(start)
    return NCCHReader(bio, **kwargs, **extra), bio
