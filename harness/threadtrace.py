"""C15: tracing and deterministic scheduling of pyctr's file-like objects.

* every threading.Lock / RLock pyctr creates is a traced lock (names = creation order inside one scenario);
* the base file is a proxy whose seek/read/write/tell are traced; the intermediate objects (windows, crypto wrappers, the merged
  split file, level files) have their position-changing methods traced;
* mode 'record': one thread, events are appended to a list;
* mode 'sched': several threads; after every traced operation the thread hands control back and continues only when the
  controller grants it the next turn, so a schedule (list of thread indices) is replayed exactly.  A thread that finds a lock
  taken reports itself blocked and is skipped, like in the Coq model.

An atomic segment of a thread is therefore: [continue after the previous traced operation; evaluate arguments; perform ONE traced
operation], which is what one action of coq/Model/Sched.v stands for."""
import io
import threading

_real_Lock = threading.Lock
_real_RLock = threading.RLock


class State:
    mode = None            # None | 'record' | 'sched'
    events = None          # record mode: list
    lock_count = 0
    ctl = None             # sched mode: Controller
    names = {}             # id(obj) -> name (int) for the current scenario
    keep = []              # keep named objects alive (ids must stay unique)
    frames = None          # per-thread stacks of positioned objects (threading.local)
    shadow = {}            # name -> the position the MODEL believes the object has (updated only by emitted events)


S = State()
S.frames = threading.local()


def stack():
    st = getattr(S.frames, 'st', None)
    if st is None:
        st = S.frames.st = []
    return st


def emit(ev):
    if S.mode == 'record':
        S.events.append(ev)
    elif S.mode == 'sched':
        S.ctl.emit(ev)


# ---------------------------------------------------------------------------------------------------------------------
class TLock:
    reentrant = False

    def __init__(self):
        self._l = _real_Lock()
        S.lock_count += 1
        self.name = S.lock_count
        self._owner = None
        self._depth = 0

    def acquire(self, blocking=True, timeout=-1):
        me = threading.get_ident()
        if self.reentrant and self._owner == me:
            self._depth += 1
            return True
        if S.mode == 'sched':
            while not self._l.acquire(False):
                S.ctl.blocked(self.name)
        else:
            self._l.acquire()
        self._owner = me
        self._depth = 1
        emit(('acq', self.name))
        return True

    def release(self):
        if self.reentrant and self._depth > 1:
            self._depth -= 1
            return
        self._owner = None
        self._depth = 0
        self._l.release()
        emit(('rel', self.name))

    def locked(self):
        return self._l.locked()

    __enter__ = acquire

    def __exit__(self, *a):
        self.release()


class TRLock(TLock):
    reentrant = True


def name_of(o):
    return S.names.get(id(o))


def pos_of(o):
    """position state of an intermediate object, or None"""
    for attr in ('_seek', '_fake_seek'):
        if hasattr(o, attr):
            v = getattr(o, attr)
            if isinstance(v, int):
                return v
    return None


class TBase(io.RawIOBase):
    """traced base file: wraps any file-like object"""

    def __init__(self, inner):
        super().__init__()
        self.inner = inner

    def readable(self):
        return True

    def writable(self):
        return self.inner.writable()

    def seekable(self):
        return True

    def _derived(self, x):
        """the nearest enclosing positioned object the argument was computed from: (name, offset) or None"""
        for o in reversed(stack()):
            p = pos_of(o)
            if p is not None and name_of(o) is not None:      # unnamed = a temporary made during the call: look further out
                # relative to what the model holds for that object: a method may move its position several times before the
                # one event that reports the net change
                return (name_of(o), x - S.shadow.get(name_of(o), p))
        return None

    def seek(self, off, whence=0):
        before = self.inner.tell()
        r = self.inner.seek(off, whence)
        emit(('seek', name_of(self), r, self._derived(r) if whence == 0 else ('self', r - before)))
        return r

    def tell(self):
        r = self.inner.tell()
        emit(('tell', name_of(self), r))
        return r

    def read(self, n=-1):
        p = self.inner.tell()
        b = self.inner.read(n)
        emit(('read', name_of(self), p, n if n is not None and n >= 0 else len(b), len(b)))
        return b

    def readinto(self, buf):
        p = self.inner.tell()
        b = self.inner.read(len(buf))
        buf[:len(b)] = b
        emit(('read', name_of(self), p, len(buf), len(b)))
        return len(b)

    def write(self, data):
        p = self.inner.tell()
        k = self.inner.write(data)
        emit(('write', name_of(self), p, len(data)))
        return k

    def flush(self):
        pass


_patched = []


def _wrap_positioned(cls, method, kind):
    """intermediate object with its own position: trace the change of position the call makes (after the call)"""
    orig = getattr(cls, method)

    def wrapper(self, *a, **k):
        st = stack()
        before = pos_of(self)
        derived = None
        if kind == 'seek':
            # where the argument came from (an enclosing positioned object), for absolute seeks
            whence = a[1] if len(a) > 1 else k.get('whence', 0)
            if whence == 0:
                for o in reversed(st):
                    p = pos_of(o)
                    if p is not None and name_of(o) is not None:
                        derived = (name_of(o), a[0] - S.shadow.get(name_of(o), p))
                        break
        st.append(self)
        try:
            r = orig(self, *a, **k)
        finally:
            st.pop()
        after = pos_of(self)
        if name_of(self) is not None:
            sh = S.shadow.get(name_of(self), before)
            if kind == 'seek':
                whence = a[1] if len(a) > 1 else k.get('whence', 0)
                S.shadow[name_of(self)] = after
                emit(('pseek', name_of(self), after, derived if whence == 0 else ('self', after - sh)))
            elif after != sh:
                S.shadow[name_of(self)] = after
                emit(('padv', name_of(self), after, after - sh))
        return r

    setattr(cls, method, wrapper)
    _patched.append((cls, method, orig))


def _wrap_cache(cls, method, kind):
    """crypto wrapper: the cached cipher is state shared by whoever shares the wrapper"""
    orig = getattr(cls, method)

    def wrapper(self, *a, **k):
        r = orig(self, *a, **k)
        if name_of(self) is not None:
            emit(('cache', name_of(self), kind))
        return r

    setattr(cls, method, wrapper)
    _patched.append((cls, method, orig))


def _wrap_frame(cls, method):
    """handles that keep a private position and call into their reader (get_data): only a frame, no event"""
    orig = getattr(cls, method)

    def wrapper(self, *a, **k):
        st = stack()
        st.append(self)
        try:
            return orig(self, *a, **k)
        finally:
            st.pop()

    setattr(cls, method, wrapper)
    _patched.append((cls, method, orig))


def install():
    """patch pyctr (idempotent)"""
    if _patched:
        return
    import pyctr.fileio as F
    import pyctr.crypto.engine as E
    import pyctr.common as C
    mods = [F, E]
    for name in ('pyctr.type.ncch', 'pyctr.type.exefs', 'pyctr.type.nand', 'pyctr.type.cia', 'pyctr.type.save.common',
                 'pyctr.type.save.partdesc.ivfc', 'pyctr.type.save.partdesc.dpfs'):
        mods.append(__import__(name, fromlist=['x']))
    for m in mods:
        if hasattr(m, 'Lock'):
            _patched.append((m, 'Lock', m.Lock))
            m.Lock = TLock
        if hasattr(m, 'RLock'):
            _patched.append((m, 'RLock', m.RLock))
            m.RLock = TRLock
    for meth in ('read', 'write'):
        _wrap_positioned(F.SubsectionIO, meth, 'rw')
    _wrap_positioned(F.SubsectionIO, 'seek', 'seek')
    _wrap_positioned(F.SplitFileMerger, 'read', 'rw')
    _wrap_positioned(F.SplitFileMerger, 'seek', 'seek')
    for cls in (E.CTRFileIO, E.TWLCTRFileIO):
        _wrap_cache(cls, 'read', 'use')
        _wrap_cache(cls, 'write', 'use')
    _wrap_cache(E.CTRFileIO, 'seek', 'reset')
    _wrap_positioned(C._ReaderOpenFileBase, 'read', 'rw')
    _wrap_positioned(C._ReaderOpenFileBase, 'seek', 'seek')
    from pyctr.type.save.partdesc import dpfs as D, ivfc as I
    for meth in ('read', 'write'):
        _wrap_positioned(D.DPFSLevel3FileIO, meth, 'rw')
    _wrap_positioned(D.DPFSLevel3FileIO, 'seek', 'seek')
    _wrap_positioned(I.IVFCLevel4Reader, 'read', 'rw')
    _wrap_positioned(I.IVFCLevel4Reader, 'write', 'rw')
    _wrap_positioned(I.IVFCLevel4Reader, 'seek', 'seek')
    # any further entry point of the file API a positioned class defines itself (the tree under test may have more than read/write)
    for cls in (F.SubsectionIO, F.SplitFileMerger, C._ReaderOpenFileBase, D.DPFSLevel3FileIO, I.IVFCLevel4Reader):
        for meth in ('readinto', 'readall', 'readline'):
            if meth in cls.__dict__:
                _wrap_positioned(cls, meth, 'rw')


def own_readinto(h):
    """does this handle have a readinto of the library's own (io.RawIOBase only has a stub that raises)"""
    for klass in type(h).__mro__:
        if 'readinto' in klass.__dict__:
            return klass.__module__.startswith('pyctr')
    return False


def uninstall():
    while _patched:
        obj, name, orig = _patched.pop()
        setattr(obj, name, orig)


def begin_scenario():
    S.lock_count = 0
    S.names = {}
    S.keep = []
    S.shadow = {}


def _children(o):
    """objects hanging off o that can take part in I/O (deterministic order)"""
    out = []
    names = []
    if hasattr(o, '__dict__'):
        names += list(vars(o))
    for klass in type(o).__mro__:
        names += list(getattr(klass, '__slots__', ()))
    seen = set()
    for n in sorted(set(names)):
        if n in ('_lock', '_rlock', '_crypto', 'fs', '_open_files') or n in seen:
            continue
        seen.add(n)
        try:
            v = getattr(o, n)
        except Exception:
            continue
        stack_ = [v]
        while stack_:
            x = stack_.pop(0)
            if isinstance(x, (list, tuple)):
                stack_ = list(x) + stack_
            elif isinstance(x, dict):
                stack_ = [x[k] for k in sorted(x, key=str)] + stack_
            elif isinstance(x, io.IOBase) or type(x).__module__.startswith('pyctr.') and not isinstance(x, (int, str, bytes, tuple)):
                if hasattr(x, 'read') or hasattr(x, 'get_block') or hasattr(x, 'get_data') or hasattr(x, 'write_data') or hasattr(x, '_fp'):
                    out.append(x)
    return out


def name_objects(objs):
    """give every object reachable from the handles a stable name (order of a deterministic walk)"""
    todo = list(objs)
    while todo:
        o = todo.pop(0)
        if id(o) in S.names:
            continue
        S.names[id(o)] = len(S.names) + 1
        S.keep.append(o)
        if isinstance(o, TBase):
            continue
        if pos_of(o) is not None:
            S.shadow[S.names[id(o)]] = pos_of(o)
        todo += _children(o)


def record(fn):
    """run fn() in this thread, return its events"""
    S.mode = 'record'
    S.events = []
    try:
        out = fn()
    finally:
        S.mode = None
    ev = S.events
    S.events = None
    return ev, out


# ---------------------------------------------------------------------------------------------------------------------
class Controller:
    """replays a schedule over real threads; one traced operation per turn"""

    def __init__(self, n):
        self.n = n
        self.cv = threading.Condition(_real_Lock())
        self.turn = None                  # index of the thread allowed to run
        self.state = ['init'] * n         # init | running | waiting | blocked | done
        self.blocked_on = [None] * n
        self.events = [[] for _ in range(n)]
        self.results = [None] * n
        self.errors = [None] * n
        self.idx = threading.local()
        self.held = {}                    # lock name -> thread index

    def me(self):
        return self.idx.i

    def emit(self, ev):
        if not hasattr(self.idx, 'i'):
            return                      # not one of the scheduled threads (finalizers, the harness itself)
        i = self.me()
        self.events[i].append(ev)
        if ev[0] == 'acq':
            self.held[ev[1]] = i
        elif ev[0] == 'rel':
            self.held.pop(ev[1], None)
        self._yield('waiting')

    def blocked(self, lockname):
        if not hasattr(self.idx, 'i'):
            import time
            time.sleep(0.001)
            return
        i = self.me()
        self.blocked_on[i] = lockname
        self._yield('blocked')
        self.blocked_on[i] = None

    def _yield(self, st):
        i = self.me()
        with self.cv:
            self.state[i] = st
            self.turn = None
            self.cv.notify_all()
            while self.turn != i:
                self.cv.wait()
            self.state[i] = 'running'

    def _thread(self, i, fn):
        self.idx.i = i
        with self.cv:
            self.state[i] = 'waiting'
            self.cv.notify_all()
            while self.turn != i:
                self.cv.wait()
            self.state[i] = 'running'
        try:
            self.results[i] = fn()
        except BaseException as ex:      # noqa
            self.errors[i] = ex
        with self.cv:
            self.state[i] = 'done'
            self.turn = None
            self.cv.notify_all()

    def run(self, fns, schedule, finish=True):
        """-> (events per thread, results, errors, executed schedule); after the schedule is used up the threads are run to
        completion round-robin when finish is set"""
        S.mode = 'sched'
        S.ctl = self
        threads = [threading.Thread(target=self._thread, args=(i, fn), daemon=True) for i, fn in enumerate(fns)]
        for t in threads:
            t.start()
        executed = []
        with self.cv:
            while any(s == 'init' for s in self.state):
                self.cv.wait()
        sched = list(schedule)
        k = 0
        stuck = 0
        while True:
            with self.cv:
                live = [i for i in range(self.n) if self.state[i] != 'done']
                if not live:
                    break
                if k < len(sched):
                    i = sched[k]
                    k += 1
                elif finish:
                    i = live[stuck % len(live)]
                else:
                    break
                if self.state[i] == 'done':
                    continue
                if self.state[i] == 'blocked' and self.blocked_on[i] in self.held:
                    stuck += 1
                    if stuck > 4 * self.n + 8 and k >= len(sched):
                        executed.append(('deadlock', [self.blocked_on[j] for j in live]))
                        break
                    continue
                stuck = 0 if self.state[i] != 'blocked' else stuck
                executed.append(i)
                self.turn = i
                self.cv.notify_all()
                while self.turn is not None:
                    self.cv.wait(5)
        S.mode = None
        S.ctl = None
        return self.events, self.results, self.errors, executed
