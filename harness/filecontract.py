"""The sub-file contract of C09 as a direct oracle on a live file-like object.

A view is described by the logical content it should expose (`content`, a bytes-like that the
oracle keeps up to date across writes) -- for a plain window that is base[o:o+sz], for a crypto
wrapper the plaintext, for a merged file the concatenation."""
from . import pyenv

BIG = 1 << 40


def gen_arg(rng, sz):
    c = rng.randrange(12)
    if c == 0:
        return -BIG
    if c == 1:
        return -17
    if c == 2:
        return -2
    if c == 3:
        return -1
    if c == 4:
        return 0
    if c == 5:
        return 1
    if c == 6:
        return sz - 1
    if c == 7:
        return sz
    if c == 8:
        return sz + 1
    if c == 9:
        return BIG
    return rng.randrange(0, sz + 3)


def gen_ops(rng, sz, n, writable=True, whences=(0, 0, 0, 1, 1, 2, 2, 3), refused_writes=False, spellings=False):
    """random history; an estimate of the position is tracked so that coincidences a wrapper might special-case are hit on purpose:
    a relative seek BY the current position, an absolute seek TO it, seek(0, 2) at position 0.
    refused_writes: writes are generated although the view is not writable (the refusal must leave everything as it was);
    spellings: read(None) for "all that is left", and writes given as a buffer of 2/4/8-byte items (an ordinary file counts bytes)"""
    ops = []
    pos = 0
    for _ in range(n):
        c = rng.randrange(11)
        if not writable and refused_writes and rng.random() < 0.2:
            ops.append(['w', pyenv.rbytes(rng, rng.choice([1, 5, 16, 17])).hex()])
            if rng.random() < 0.6:
                ops.append(['r', rng.choice([1, 5, 16, 17])])          # ... directly followed by a read: no seek in between
                pos += min(ops[-1][1], max(0, sz - pos))
            continue
        if spellings and rng.random() < 0.12:
            if writable and rng.random() < 0.6:
                item = rng.choice([2, 4, 8])
                k = item * rng.randrange(1, 6)
                ops.append(['wv', pyenv.rbytes(rng, k).hex(), item])
                pos += k
            else:
                # "all that is left" spelled read(None) or readall() (no random draw: the streams of the older histories stay as they were)
                ops.append(['r', None] if (len(ops) + pos) % 2 else ['r', -1, 'all'])
                pos += max(0, sz - pos)
            continue
        if c < 4:
            a = gen_arg(rng, sz)
            ops.append(['r', a])
            left = max(0, sz - pos)
            pos += left if a < 0 else min(a, left)
        elif c < 7:
            a, w = gen_arg(rng, sz), rng.choice(whences)
            ops.append(['s', a, w] + (['kw'] if spellings and rng.random() < 0.3 else []))
            if w == 0 and a >= 0:
                pos = a
            elif w == 1:
                pos = max(0, pos + a)
            elif w == 2:
                pos = max(0, sz + a)
        elif c == 7:
            k = rng.randrange(4)
            if k == 3:
                d = rng.choice([1, 2, 17])
                ops.append(['s', d, 2])          # a few bytes beyond the end
                pos = sz + d
            elif k == 0:
                ops.append(['s', pos, 1])        # relative seek by exactly the current position
                pos = pos + pos
            elif k == 1:
                ops.append(['s', pos, 0])        # absolute seek to where we are
            else:
                ops.append(['s', 0, 2] if pos == 0 else ['s', pos - sz, 2])
                pos = sz if pos == 0 else pos
                if rng.random() < 0.4:
                    d = rng.choice([1, 2, 17])
                    ops.append(['s', d, 1])
                    pos += d
            if writable and rng.random() < 0.5:
                # ... followed by a write: the position may now lie beyond the end (relative seeks are not clamped from above)
                ops.append(['w', pyenv.rbytes(rng, rng.choice([1, 5, 16, 17, 40])).hex()])
                pos += len(ops[-1][1]) // 2
            else:
                ops.append(['r', rng.choice([1, 5, 16, 17])])
                if spellings and (len(ops) + pos) % 3 == 0:
                    ops[-1] = ['r', -1, 'all']          # readall() where the position may lie beyond the end
                    pos += max(0, sz - pos)
                else:
                    pos += min(ops[-1][1], max(0, sz - pos))
        elif c < 10 and writable:
            k = rng.choice([0, 1, 2, 3, 5, 16, 17, max(0, sz - 1), sz, sz + 2])
            ops.append(['w', pyenv.rbytes(rng, min(k, 64)).hex()])
            pos += min(k, 64)
        else:
            ops.append(['t'])
    return ops


class Contract:
    """checks one history; `fail(sig, what, expected, observed)` is called on each breach"""

    def __init__(self, view, content, fail, writable=True, probe_outside=None, extends=False, seek_clamps=True):
        self.v = view
        self.content = bytearray(content)
        self.sz = len(content)
        self.fail = fail
        self.writable = writable
        self.probe_outside = probe_outside   # () -> bytes of everything outside the window
        self.extends = extends               # view may grow on writes (plain CTR wrapper over a whole file)
        self.read_error = None               # name of the error reads are expected to be refused with (a keyslot without a key)
        self.results = []

    def tell(self):
        return self.v.tell()

    def step(self, op):
        v = self.v
        try:
            pos = self.tell()
        except Exception as e:
            self.fail('tell-raises', f'tell() raised {pyenv.errname(e)}', 'a position', pyenv.errname(e))
            self.results.append('e:' + pyenv.errname(e))
            return
        if pos < 0:
            self.fail('negative-position', 'reported position is negative', '>= 0', pos)
        kind = op[0]
        if kind == 'r':
            n = op[1]
            try:
                r = v.readall() if len(op) > 2 and op[2] == 'all' and hasattr(v, 'readall') else v.read(n)
            except Exception as e:
                if pyenv.errname(e) != self.read_error:
                    self.fail('read-raises', f'read({n}) at {pos} raised {pyenv.errname(e)}', 'bytes', pyenv.errname(e))
                self.results.append('e:' + pyenv.errname(e))
                # a read that was refused has returned nothing, so it has consumed nothing
                try:
                    after = self.tell()
                except Exception:
                    after = None
                if after != pos:
                    self.fail('read-error-moved', f'read({n}) at {pos} raised {pyenv.errname(e)} and left the position at {after}', pos, after)
                return
            r = bytes(r)
            self.results.append('h:' + r.hex())
            remaining = max(0, self.sz - pos)
            if n is None:
                n = -1
            want = remaining if n < 0 else min(n, remaining)
            exp = bytes(self.content[pos:pos + want])
            if n >= 0 and len(r) > n:
                self.fail('read-too-long', f'read({n}) returned {len(r)} bytes', f'<= {n}', len(r))
            if pos + len(r) > self.sz and r:
                self.fail('read-past-window', f'read({n}) at {pos} returned bytes at or past the window end {self.sz}',
                          exp.hex(), r.hex())
            elif r != exp:
                self.fail('read-wrong-bytes', f'read({n}) at {pos}: wrong bytes / wrong count', exp.hex(), r.hex())
            after = self.tell()
            if after != pos + len(r):
                self.fail('read-position', f'position after read({n}) at {pos} returning {len(r)} bytes',
                          pos + len(r), after)
        elif kind in ('w', 'wv'):
            d = bytes.fromhex(op[1])
            outside0 = self.probe_outside() if self.probe_outside else None
            try:
                # 'wv': the same bytes handed over as a buffer of wider items; a file counts and stores bytes whatever the item size
                k = v.write(d if kind == 'w' else memoryview(d).cast({2: 'H', 4: 'I', 8: 'Q'}[op[2]]))
            except Exception as e:
                if self.writable:
                    self.fail('write-raises', f'write of {len(d)} bytes at {pos} raised {pyenv.errname(e)}', 'a count',
                              pyenv.errname(e))
                self.results.append('e:' + pyenv.errname(e))
                # a call that was refused has changed nothing: not the position, not a byte outside
                try:
                    after = self.tell()
                except Exception:
                    after = None
                if after != pos:
                    self.fail('write-error-moved', f'write of {len(d)} bytes at {pos} raised {pyenv.errname(e)} and left the position at {after}', pos, after)
                if outside0 is not None and self.probe_outside() != outside0:
                    self.fail('write-outside-window', f'refused write of {len(d)} bytes at {pos} changed bytes outside the window', 'unchanged', 'changed')
                return
            self.results.append('i:%x' % k if isinstance(k, int) else 'i:?')
            if not isinstance(k, int) or k < 0 or k > len(d):
                self.fail('write-count', f'write of {len(d)} bytes reported {k}', f'0..{len(d)}', k)
                return
            room = max(0, self.sz - pos)
            if not self.extends and k != min(len(d), room):
                self.fail('write-count', f'write of {len(d)} bytes at {pos} (room {room}) reported {k}', min(len(d), room), k)
            if self.extends and k:
                if pos > len(self.content):
                    self.content.extend(b'\0' * (pos - len(self.content)))
                self.content[pos:pos + k] = d[:k]
                self.sz = len(self.content)
            elif k:
                self.content[pos:pos + k] = d[:k]
                del self.content[self.sz:]
            if outside0 is not None and self.probe_outside() != outside0:
                self.fail('write-outside-window', f'write of {len(d)} bytes at {pos} changed bytes outside the window',
                          'unchanged', 'changed')
            after = self.tell()
            if after != pos + k:
                self.fail('write-position', f'position after write storing {k} bytes at {pos}', pos + k, after)
        elif kind == 's':
            off, wh = op[1], op[2]
            try:
                # pyctr's views name their parameters: seek(offset, whence=2) is the same call
                p = v.seek(off, whence=wh) if len(op) > 3 and op[3] == 'kw' else v.seek(off, wh)
            except Exception as e:
                name = pyenv.errname(e)
                self.results.append('e:' + name)
                legit = (wh == 0 and off < 0) or wh not in (0, 1, 2)
                if not legit:
                    self.fail('seek-raises', f'seek({off},{wh}) at {pos} raised {name}', 'a position', name)
                # a call that was refused has not moved the file
                try:
                    after = self.tell()
                except Exception:
                    after = None
                if after != pos:
                    self.fail('seek-error-moved', f'seek({off},{wh}) at {pos} raised {name} and left the position at {after}', pos, after)
                return
            self.results.append('i:%x' % p if isinstance(p, int) and p >= 0 else f'i:{p}')
            after = self.tell()
            if wh == 0 and 0 <= off <= self.sz and after != off:
                self.fail('seek-abs', f'seek({off},0) inside the window', off, after)
            if wh == 1 and after != max(0, pos + off):
                self.fail('seek-rel', f'seek({off},1) from {pos}', max(0, pos + off), after)
            if wh == 2 and after != max(0, self.sz + off):
                self.fail('seek-end', f'seek({off},2) with size {self.sz}', max(0, self.sz + off), after)
            if wh in (0, 1, 2) and p != after:
                self.fail('seek-return', f'seek({off},{wh}) returned {p} but tell() says {after}', after, p)
        elif kind == 't':
            self.results.append('i:%x' % pos)
        for name in ('readable', 'writable', 'seekable'):
            pass

    def flags(self):
        for name in ('readable', 'writable', 'seekable'):
            try:
                x = getattr(self.v, name)()
                if not isinstance(x, bool):
                    self.fail('flag-type', f'{name}() returned {x!r}', 'a bool', repr(x))
            except Exception as e:
                self.fail('flag-raises', f'{name}() raised {pyenv.errname(e)}', 'True/False', pyenv.errname(e))

    def run(self, ops):
        self.flags()
        for op in ops:
            self.step(op)
        # final sweep: the view must now read back the logical content
        try:
            self.v.seek(0)
            got = bytes(self.v.read(-1))
            if got != bytes(self.content):
                self.fail('final-content', 'view content after the history', bytes(self.content).hex(), got.hex())
        except Exception as e:
            self.fail('final-read-raises', f'final read raised {pyenv.errname(e)}', 'bytes', pyenv.errname(e))
        return self.results


def op_line(op):
    from .core import zhex
    if op[0] == 'r':
        return f'r {zhex(-1 if op[1] is None else op[1])}'
    if op[0] == 's':
        return f's {zhex(op[1])} {zhex(op[2])}'
    if op[0] in ('w', 'wv'):
        return f'w h:{op[1]}'
    return 't'
