"""Set-up of pyctr for the harness: synthetic bootROM key blobs (the real ones are
copyrighted and absent), engine factory, error classification."""
import hashlib
import random


def install_fake_boot9(seed=1234):
    """pyctr.crypto.engine normally needs boot9.bin; install deterministic synthetic blobs
    through the module globals (no repository change)."""
    from pyctr.crypto import engine as E
    r = random.Random(seed)
    E._b9_keyblob['retail'] = bytes(r.getrandbits(8) for _ in range(0x400))
    E._b9_keyblob['dev'] = bytes(r.getrandbits(8) for _ in range(0x400))
    E._otp_key_iv['retail'] = (bytes(r.getrandbits(8) for _ in range(16)), bytes(r.getrandbits(8) for _ in range(16)))
    E._otp_key_iv['dev'] = (bytes(r.getrandbits(8) for _ in range(16)), bytes(r.getrandbits(8) for _ in range(16)))
    E.b9_blobs_loaded = True


def uninstall_fake_boot9():
    from pyctr.crypto import engine as E
    E._b9_keyblob['retail'] = None
    E._b9_keyblob['dev'] = None
    E._otp_key_iv['retail'] = None
    E._otp_key_iv['dev'] = None
    E.b9_blobs_loaded = False


def errname(e):
    """exception -> the small enum shared with the Coq models"""
    from pyctr.common import PyCTRError
    name = type(e).__name__
    if isinstance(e, PyCTRError):
        from .kernels import PYCTR_ERRS
        for cls in type(e).__mro__:
            if cls.__name__ in PYCTR_ERRS:
                return 'Pyctr%d' % PYCTR_ERRS[cls.__name__]
        return 'Pyctr?' + name
    return name


def rbytes(rng, n):
    return bytes(rng.getrandbits(8) for _ in range(n))
