"""C13 case generation: NAND images for a synthetic console."""
import random

from . import pyenv
from .builders import nand as NB, exefs as XB

STD = dict(twl=(0, 0x0B100000), agb=(0x0B100000, 0x30000), firm0=(0x0B130000, 0x400000), firm1=(0x0B530000, 0x400000))


def gen_case(rng, force=None):
    n3ds = rng.random() < 0.5
    big = n3ds and rng.random() < 0.7
    size_mu = 0x280000 if big else 0x200000
    total = NB.NAND_SIZE[size_mu]
    layout = rng.choice(['retail', 'retail', 'shuffled', 'shuffled', 'odd'])
    twl_std = layout == 'retail' or rng.random() < 0.5
    ctr_crypt = NB.CRYPT_NEW if n3ds else NB.CRYPT_CTR
    parts = []         # (name, fs, crypt, size_bytes)
    twl_size = 0x0B100000 if twl_std else rng.choice([0x40000, 0x100000, 0x0B100000])
    parts.append(('twl', NB.FS_NORMAL, NB.CRYPT_TWL, twl_size))
    parts.append(('agb', NB.FS_AGB, NB.CRYPT_CTR, rng.choice([0x30000, 0x200, 0x10000])))
    parts.append(('firm0', NB.FS_FIRM, NB.CRYPT_CTR, rng.choice([0x400000, 0x8000])))
    if rng.random() < 0.85:
        parts.append(('firm1', NB.FS_FIRM, NB.CRYPT_CTR, rng.choice([0x400000, 0x8000])))
    if layout == 'odd' and rng.random() < 0.5:
        parts.append(('firm2', NB.FS_FIRM, NB.CRYPT_CTR, 0x4000))
    ctr_size = rng.choice([0x100000, 0x2F5D0000 if not big else 0x41ED0000, 0x800000])
    parts.append(('ctr', NB.FS_NORMAL, ctr_crypt, ctr_size))
    if layout == 'odd':
        for _ in range(rng.choice([0, 1, 1])):
            if len(parts) < 8:
                parts.insert(rng.randrange(len(parts) + 1), ('unk', rng.choice([2, 5, 7]), rng.choice([0, 1, 2, 3, 4]), 0x2000))
    if layout == 'retail':
        order = parts
    else:
        order = parts[:]
        rng.shuffle(order)
        if twl_std or True:
            pass
    # placement: sequential with random gaps, the first partition may start at 0 (retail: TWL at 0)
    table = [(0, 0, 0, 0)] * 8
    slots = sorted(rng.sample(range(8), len(order))) if layout != 'retail' else list(range(len(order)))
    off = 0 if (layout == 'retail' or rng.random() < 0.5) else rng.choice([0x12C00, 0x20000])
    names = {}
    for (name, fs, cr, sz), slot in zip(order, slots):
        if off < 0x12C00 and name != 'twl':
            off = 0x12C00          # sectors 0..0x95 hold the header / essential backup in raw form
        if off + sz > total:
            sz = max(0x200, (total - off) // 0x200 * 0x200)
        table[slot] = (fs, cr, off // 0x200, sz // 0x200)
        names[slot] = name
        off += sz + rng.choice([0, 0, 0x200, 0x10000])
    if force and force.get('ctr_slot0'):
        # the table index is independent of where the partition lies: CTRNAND as entry 0
        cs = next(s for s, n in names.items() if n == 'ctr')
        if cs != 0:
            table[0], table[cs] = table[cs], table[0]
            n0 = names.get(0)
            names[0] = 'ctr'
            if n0 is None:
                del names[cs]
            else:
                names[cs] = n0
    twl_slot = next((s for s, n in names.items() if n == 'twl'), None)
    tsz = table[twl_slot][3] * 0x200
    if twl_std and tsz < 0x0B100000:
        twl_std = False
    csz = next(table[s][3] for s, n in names.items() if n == 'ctr') * 0x200
    cid_mode = rng.choice(['given', 'given', 'essential', 'withheld'])
    ctr_std = cid_mode == 'withheld' or rng.random() < 0.6
    if cid_mode == 'withheld':
        if not twl_std:
            cid_mode = 'given'
    def subparts(size, n):
        out = []
        o = 0x200 * rng.choice([0x97, 0x97, 0x100])       # past sectors 0..0x95 (header / essential backup) when the partition starts at 0
        for _ in range(n):
            s = rng.choice([0x200, 0x4000, 0x20000])
            if o + s > size:
                break
            out.append((o, s))
            o += s + rng.choice([0, 0x200])
        return out
    ctr_parts = subparts(csz, 1 if ctr_std else rng.choice([1, 2, 4])) or [(0x200, 0x200)]
    twl_parts = subparts(tsz, rng.choice([1, 2, 3])) or [(0x200, 0x200)]
    case = dict(b9seed=rng.randrange(1 << 20), dseed=rng.randrange(1 << 30), dev=rng.random() < 0.3, size_mu=size_mu,
                table=[list(t) for t in table], twl_std=twl_std, ctr_parts=[list(p) for p in ctr_parts], twl_parts=[list(p) for p in twl_parts],
                cid_mode=cid_mode, otp_mode=rng.choice(['dec', 'enc', 'essential']), layout=layout,
                bonus=rng.random() < 0.15)
    if case['cid_mode'] == 'essential' or case['otp_mode'] == 'essential':
        case['essential'] = True
    else:
        case['essential'] = rng.random() < 0.3
    if force:
        case.update(force)
    return case


def materialise(case):
    """-> (img, info, spec, open kwargs, truth) ; installs the synthetic bootROM"""
    pyenv.install_fake_boot9(case['b9seed'])
    from pyctr.crypto import engine as E
    which = 'dev' if case['dev'] else 'retail'
    blob = E._b9_keyblob[which]
    otp_key, otp_iv = E._otp_key_iv[which]
    rng = random.Random(case['dseed'])
    otp_dec = NB.make_otp(rng)
    otp_enc = NB.otp_encrypt(otp_dec, otp_key, otp_iv)
    cid = pyenv.rbytes(rng, 16)
    keys = NB.derive_keys(blob, otp_dec, otp_enc, case['dev'])
    ctr, ctr_twl = NB.counters(cid)
    wrap_at = None
    if case['cid_mode'] == 'withheld' and case['dseed'] % 2 == 0:
        # nobody gives the reader the CID, so the counter is whatever the image was encrypted with: one whose low 64 bits run out inside
        # the CTRNAND partition (the carry into the upper half falls in the middle of the data)
        for fs, cr, o, sz in case['table']:
            if (NB.kind_of(fs, cr) or '').startswith('ctr') and sz * 0x200 > 0x8000:
                wrap_at = o * 0x200 + 0x4000 + 16 * rng.randrange(0, 16)
                ctr = (rng.getrandbits(63) << 64) | ((1 << 64) - wrap_at // 16)
                break
    ess = None
    if case['essential']:
        files = [('nand_hdr', b'\x11' * 0x200)]
        if case['otp_mode'] == 'essential' or rng.random() < 0.5:
            files.append(('otp', otp_enc if rng.random() < 0.5 else otp_dec))
        if case['cid_mode'] == 'essential':
            files.append(('nand_cid', cid))
        ess = XB.build_exefs(files)[0]
    spec = dict(seed=case['dseed'].to_bytes(8, 'little'), size_mu=case['size_mu'], table=[tuple(t) for t in case['table']], keys=keys,
                ctr=ctr, ctr_twl=ctr_twl, sig=pyenv.rbytes(rng, 0x100), unknown=pyenv.rbytes(rng, 94), twl_std=case['twl_std'],
                twl_parts=[tuple(p) for p in case['twl_parts']], ctr_parts=[tuple(p) for p in case['ctr_parts']], essential=ess,
                hdr_mbr=pyenv.rbytes(rng, 0x42), bonus_size=0x40000 if case['bonus'] else 0)
    img, info = NB.build(spec)
    kw = dict(dev=case['dev'])
    if case['otp_mode'] == 'dec':
        kw['otp'] = otp_dec
    elif case['otp_mode'] == 'enc':
        kw['otp'] = otp_enc
    if case['cid_mode'] == 'given':
        kw['cid'] = cid
    truth = dict(cid=cid, otp_dec=otp_dec, otp_enc=otp_enc, keys=keys, ctr=ctr, ctr_twl=ctr_twl, wrap_at=wrap_at)
    return img, info, spec, kw, truth
