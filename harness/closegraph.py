"""C16: read the ownership / closed-check structure off live pyctr objects (the translator of this property).

For every object reachable from the roots of a scenario the per-class rule below gives
  guard  : objects whose `closed` flag the object's closed-check decorator tests besides its own,
  under  : objects a real transfer goes through,
  closes : objects whose close() this object's close() calls
(these rules restate the close()/decorator code of each class; the correspondence run of checks/c16.py is what ties them to it)."""


def rule(o):
    """-> (guard, under, closes, self_marks) -- three lists of objects and whether close() marks the object itself"""
    from pyctr.fileio import SubsectionIO, SplitFileMerger, CloseWrapper
    from pyctr.crypto.engine import _CryptoFileBase
    from pyctr.common import _ReaderOpenFileBase
    from pyctr.type.base.typereader import TypeReaderBase
    cls = type(o).__name__
    if isinstance(o, SubsectionIO) or isinstance(o, CloseWrapper):
        return [o._reader], [o._reader], [], True
    if isinstance(o, _CryptoFileBase):
        return [o._reader], [o._reader], ([o._reader] if o._closefd else []), True
    if isinstance(o, SplitFileMerger):
        fs = [f[0] for f in o._files]
        return [], fs[:1], (fs if o._closefds else []), True
    if isinstance(o, _ReaderOpenFileBase):
        # the class attribute `closed = False` shadows IOBase.closed and close() is not overridden: closing such a handle has no effect
        return [o._reader], [o._reader], [], False
    if cls == 'DPFSLevel3FileIO':
        return [], [o._lv3._fp], [], True
    if cls == 'IVFCLevel4Reader':
        return [o._tree._fp], [o._tree._fp], [], True
    if isinstance(o, TypeReaderBase) or cls in ('CDNReader', 'SDTitleReader'):
        closes = []
        under = []
        f = getattr(o, '_file', None)
        if f is not None:
            under.append(f)
            if getattr(o, '_closefd', False):
                closes.append(f)
        closes += sorted(o._open_files, key=id)
        if cls == 'NCCHReader':
            closes += [x for x in (getattr(o, 'exefs', None), getattr(o, 'romfs', None)) if x is not None]      # the nested readers
            if getattr(o, '_exefs_fp', None) is not None:
                closes.append(o._exefs_fp)
        if cls in ('CIAReader', 'CCIReader', 'CDNReader', 'SDTitleReader'):
            closes += list(o.contents.values())
        if cls == 'NAND':
            closes += list(o._fat_partitons) + list(o._base_files.values())
            if o.essential:
                closes.append(o.essential)
        if cls in ('DISA', 'DIFF'):
            closes += [p.dpfs_lv3_file for p in o.partitions.values()]
        return [], under, closes, True
    if cls == 'RawWrapper' and hasattr(o, '_f'):      # PyFilesystem2's wrapper around a handle (FS.open)
        return [o._f], [o._f], [], True
    return [], [], [], True          # a plain file object


def extract(roots):
    """roots: list of objects -> (nodes, index) where nodes[i] = (guard, under, closes) index lists and index maps id(obj) -> i"""
    index = {}
    objs = []
    edges = []

    def visit(o):
        if id(o) in index:
            return index[id(o)]
        i = index[id(o)] = len(objs)
        objs.append(o)
        edges.append(None)
        g, u, c, sm = rule(o)
        edges[i] = ([visit(x) for x in g], [visit(x) for x in u], [visit(x) for x in c], sm)
        return i

    for r in roots:
        visit(r)
    return edges, index, objs


def encode(nodes):
    return ';'.join('|'.join(','.join(str(x) for x in part) for part in n[:3]) + '|' + ('1' if n[3] else '0') for n in nodes)


def coq_graph(nodes):
    def l(xs):
        return '[' + '; '.join(str(x) for x in xs) + ']'
    return '[' + ';\n     '.join(f'mkNode {l(g)} {l(u)} {l(c)} {"true" if sm else "false"}' for g, u, c, sm in nodes) + ']'
