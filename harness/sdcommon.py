"""Independent SD-card crypto (3dbrew: SD Filesystem): path counter, SD key, ID0."""
import hashlib

from .builders.ncch import scramble, ctr_xor


def sd_norm(path):
    p = path.lower().replace('\\', '/')
    if p.startswith('/backup') and len(p) > 28:
        p = f'/title/{p[12:20]}/{p[20:28]}/data' + p[28:]
    return p


def sd_counter(path):
    h = hashlib.sha256(sd_norm(path).encode('utf-16le') + b'\0\0').digest()
    return int.from_bytes(h[:16], 'big') ^ int.from_bytes(h[16:], 'big')


def sd_keyx(blob):
    """KeyX of slot 0x34 inside the (synthetic) bootROM key blob: third 16-byte group at 0x170"""
    return int.from_bytes(blob[0x170 + 0x20:0x170 + 0x30], 'big')


def sd_normal_key(keyx, key16):
    return scramble(keyx, int.from_bytes(key16, 'big'))


def id0_of(key16):
    h = hashlib.sha256(key16).digest()[:16]
    return b''.join(h[i:i + 4][::-1] for i in range(0, 16, 4))


def sd_crypt(normal_key, path, data, skip=0):
    return ctr_xor(normal_key, sd_counter(path), data, skip)


def movable_sed(rng, key16, form):
    from . import pyenv
    if form == 0x10:
        return key16
    body = pyenv.rbytes(rng, 0x110) + key16
    if form == 0x140:
        body += pyenv.rbytes(rng, 0x20)
    return body
