"""Shared machinery of every check: build steps, the model runner, verdicts, evidence."""
import fcntl
import hashlib
import json
import os
import random
import re
import shutil
import subprocess
import sys
import time

VERIF = '/verif'
REPO = os.environ.get('PYCTR_REPO', '/repo')        # scratch checkouts for mutant trials only; registered commands use /repo
COQ = os.path.join(VERIF, 'coq')
OUT = os.environ.get('VERIF_OUT', VERIF)             # where _build / evidence / replays go (mutant trials redirect this)
BUILD = os.path.join(OUT, '_build')
ALLOWED_AXIOMS = {
    # standard-library axioms that may appear (none is expected; listed for the parser)
    'functional_extensionality_dep', 'proof_irrelevance', 'Eqdep.Eq_rect_eq.eq_rect_eq',
    'FunctionalExtensionality.functional_extensionality_dep', 'Classical_Prop.classic',
}
FORBIDDEN = re.compile(r'\b(Admitted|admit|Axiom|Parameter|Conjecture|Unset\s+Guard|bypass_check|Admit\s+Obligations)\b|type-in-type')


def sh(cmd, cwd=None, timeout=600, env=None):
    p = subprocess.run(cmd, shell=isinstance(cmd, str), cwd=cwd, timeout=timeout, env=env,
                       stdout=subprocess.PIPE, stderr=subprocess.STDOUT, text=True)
    return p.returncode, p.stdout


class Lock:
    def __init__(self, name):
        os.makedirs(BUILD, exist_ok=True)
        self.path = os.path.join(BUILD, name + '.lock')

    def __enter__(self):
        self.f = open(self.path, 'w')
        fcntl.flock(self.f, fcntl.LOCK_EX)

    def __exit__(self, *a):
        fcntl.flock(self.f, fcntl.LOCK_UN)
        self.f.close()


def ensure_static_built():
    """(re)build the hand-written Coq development and the extracted model runner if stale."""
    with Lock('static'):
        if not os.path.exists(os.path.join(COQ, 'Makefile')):
            rc, out = sh('coq_makefile -f _CoqProject -o Makefile', cwd=COQ)
            if rc:
                return False, out
        rc, out = sh('timeout 1500 make -j12', cwd=COQ, timeout=1600)
        if rc:
            return False, out[-4000:]
        runner = os.path.join(VERIF, 'ocaml', 'modelrun')
        newest = 0
        for root, _, files in os.walk(COQ):
            for f in files:
                if f.endswith('.v'):
                    newest = max(newest, os.path.getmtime(os.path.join(root, f)))
        for f in ('driver.ml', 'driver_base.ml', 'build.sh'):
            newest = max(newest, os.path.getmtime(os.path.join(VERIF, 'ocaml', f)))
        if not os.path.exists(runner) or os.path.getmtime(runner) < newest:
            rc, out = sh('./build.sh', cwd=os.path.join(VERIF, 'ocaml'), timeout=1000)
            if rc:
                return False, out[-4000:]
    return True, ''


def grep_forbidden(paths):
    bad = []
    for p in paths:
        with open(p, encoding='utf-8') as f:
            for i, line in enumerate(f, 1):
                code = re.sub(r'\(\*.*?\*\)', '', line)
                if FORBIDDEN.search(code):
                    bad.append(f'{p}:{i}: {line.strip()}')
    return bad


def static_coq_files():
    out = []
    for root, _, files in os.walk(COQ):
        for f in files:
            if f.endswith('.v'):
                out.append(os.path.join(root, f))
    return sorted(out)


class ProofResult:
    def __init__(self):
        self.ok = True
        self.obligations = 0      # theorems / lemmas compiled in the per-run files
        self.discharged = 0
        self.theorems = []        # names with "Print Assumptions" output
        self.axioms = set()
        self.failed = []          # (file, message)
        self.log = ''
        self.static_lemmas = 0


def count_lemmas(path):
    n = 0
    with open(path, encoding='utf-8') as f:
        for line in f:
            if re.match(r'\s*(Theorem|Lemma|Corollary|Example|Fact)\s', line):
                n += 1
    return n


def prove(prop, gen_modules, dyn_files, static_deps=(), extra_gen=()):
    """tie 1 + proof step: regenerate kernels, compile generated + bridge + property files."""
    from . import py2gallina, kernels
    res = ProofResult()
    bdir = os.path.join(BUILD, prop)
    shutil.rmtree(bdir, ignore_errors=True)
    os.makedirs(bdir)
    ok, out = ensure_static_built()
    if not ok:
        res.ok = False
        res.failed.append(('static development', out))
        res.log = out
        return res
    files = []
    for m in gen_modules:
        spec = kernels.MODULES[m]
        target = os.path.join(bdir, f'Gen_{m}.v')
        try:
            text = py2gallina.translate_module(os.path.join(REPO, spec['file']), spec['kernels'], kernels.PYCTR_ERRS,
                                               imports=spec.get('imports', ()), extfuncs=spec.get('extfuncs'))
        except py2gallina.Unsupported as e:
            res.ok = False
            res.failed.append((f'translator:{m}', f'source no longer in the translatable subset: {e}'))
            continue
        except SyntaxError as e:
            res.ok = False
            res.failed.append((f'translator:{m}', f'syntax error in source: {e}'))
            continue
        with open(target, 'w') as f:
            f.write(text)
        files.append(target)
    for name, text in extra_gen:          # files generated by the check itself from what the implementation does now
        target = os.path.join(bdir, name + '.v')
        with open(target, 'w') as f:
            f.write(text)
        files.append(target)
    for d in dyn_files:
        src = os.path.join(VERIF, 'dyn', d + '.v')
        dst = os.path.join(bdir, d + '.v')
        shutil.copy(src, dst)
        files.append(dst)
    bad = grep_forbidden(files + static_coq_files())
    if bad:
        res.ok = False
        res.failed.append(('forbidden-construct', '\n'.join(bad)))
    res.obligations = sum(count_lemmas(f) for f in files)
    for f in files:
        n = count_lemmas(f)
        if any(x[0].startswith('translator') for x in res.failed) and not f.endswith('.v'):
            continue
        rc, out = sh(['timeout', '300', 'coqc', '-Q', COQ, 'Pyctr', '-Q', bdir, 'Dyn', f], cwd=bdir, timeout=320)
        res.log += f'== {os.path.basename(f)}\n{out}\n'
        if rc != 0:
            res.ok = False
            res.failed.append((os.path.basename(f), out[-3000:]))
            break   # later files depend on this one
        res.discharged += n
        # Print Assumptions output
        for m in re.finditer(r'Axioms:\n((?:.+\n)+?)(?=\n|\Z|Closed|Axioms)', out):
            for line in m.group(1).splitlines():
                mm = re.match(r'^(\S+)\s*:', line)
                if mm:
                    res.axioms.add(mm.group(1))
        res.theorems += re.findall(r'^Theorem\s+(\w+)', open(f).read(), re.M) if 'props' in os.path.basename(f) else []
    extra = {a for a in res.axioms if a not in ALLOWED_AXIOMS and a.split('.')[-1] not in ALLOWED_AXIOMS}
    if extra:
        res.ok = False
        res.failed.append(('axioms', 'assumptions outside the allowed list: ' + ', '.join(sorted(extra))))
    for p in static_deps:
        if os.path.exists(os.path.join(COQ, p)):
            res.static_lemmas += count_lemmas(os.path.join(COQ, p))
    return res


class ModelRunner:
    """Talks to the extracted OCaml model over a pipe; answers primitive call-backs."""

    def __init__(self, oracles=None):
        def big_stack():
            import resource
            soft, hard = resource.getrlimit(resource.RLIMIT_STACK)
            try:
                resource.setrlimit(resource.RLIMIT_STACK, (hard, hard))
            except (ValueError, OSError):
                pass
        self.p = subprocess.Popen([os.path.join(VERIF, 'ocaml', 'modelrun')], stdin=subprocess.PIPE,
                                  stdout=subprocess.PIPE, text=True, bufsize=1, preexec_fn=big_stack)
        self.oracles = oracles or {}
        self.queries = 0

    def ask(self, line):
        self.p.stdin.write(line + '\n')
        self.p.stdin.flush()
        while True:
            out = self.p.stdout.readline()
            if not out:
                raise RuntimeError('model runner died on: ' + line[:200])
            out = out.rstrip('\n')
            if out.startswith('Q '):
                parts = out.split(' ')
                self.queries += 1
                ans = self.oracles[parts[1]](*parts[2:])
                self.p.stdin.write(ans + '\n')
                self.p.stdin.flush()
                continue
            if out.startswith('DRIVER-ERROR'):
                raise RuntimeError(out + ' on: ' + line[:200])
            return out

    def close(self):
        try:
            self.p.stdin.close()
            self.p.wait(timeout=5)
        except Exception:
            self.p.kill()


def hx(b):
    return 'h:' + bytes(b).hex()


def unhx(s):
    assert s.startswith('h:'), s
    return bytes.fromhex(s[2:])


def zhex(n):
    return ('-%x' % -n) if n < 0 else ('%x' % n)


def load_findings():
    p = os.path.join(VERIF, 'KNOWN_FINDINGS.json')
    if not os.path.exists(p):
        return []
    with open(p) as f:
        return json.load(f)['entries']


class Ctx:
    def __init__(self, prop, tier, seed):
        self.prop = prop
        self.tier = tier
        self.seed = seed
        self.rng = random.Random(seed)
        self.t0 = time.time()
        self.evaluations = 0
        self.distinct = set()
        self.samples = []
        self.diffs = []          # dicts: kind, signature, case, expected, observed
        self.known_hits = {}
        self.sig_counts = {}
        self.stats = {}
        self.findings = [e for e in load_findings() if e['property'] == prop and e['kind'] == 'finding']
        self.notes = []
        self.last_case = None

    def quick(self):
        return self.tier == 'quick'

    def n(self, quick, thorough):
        return quick if self.tier == 'quick' else thorough

    def stat(self, key, inc=1):
        self.stats[key] = self.stats.get(key, 0) + inc

    def case(self, case, nontrivial=True):
        """register one explored case (JSON-able)"""
        self.last_case = case
        self.evaluations += 1
        if nontrivial:
            self.distinct.add(hashlib.sha1(json.dumps(case, sort_keys=True, default=str).encode()).hexdigest())
        if len(self.samples) < 3 or (self.evaluations % 997 == 0 and len(self.samples) < 8):
            self.samples.append(case)

    def diff(self, kind, signature, case, expected, observed, what):
        """kind: 'oracle' (implementation disagrees with the property's specification: a failing input)
                 'corr' (model and implementation disagree on something the property does not fix)"""
        for f in self.findings:
            if f['signature'] == signature:
                self.known_hits.setdefault(signature, f['text'])
                return
        self.sig_counts[signature] = self.sig_counts.get(signature, 0) + 1
        if len(self.diffs) < 50:
            self.diffs.append(dict(kind=kind, signature=signature, case=case, expected=expected,
                                   observed=observed, what=what))


def write_replay(prop, payload):
    d = os.path.join(OUT, 'replays', prop)
    os.makedirs(d, exist_ok=True)
    blob = json.dumps(payload, sort_keys=True, default=str, indent=1)
    name = hashlib.sha1(blob.encode()).hexdigest()[:12] + '.json'
    path = os.path.join(d, name)
    with open(path, 'w') as f:
        f.write(blob)
    return path


def finish(ctx, proof, technique_rule, trusted_base, assumptions, extra_cov=None, search=None):
    """verdict + evidence; returns exit code"""
    exit_code = 0
    violations = 0
    lines = []
    for sig, text in sorted(ctx.known_hits.items()):
        lines.append(f'KNOWN-FINDING: property={ctx.prop} {text}')
    oracle = [d for d in ctx.diffs if d['kind'] == 'oracle']
    corr = [d for d in ctx.diffs if d['kind'] != 'oracle']
    if oracle:
        d = oracle[0]
        path = write_replay(ctx.prop, dict(property=ctx.prop, seed=ctx.seed, tier=ctx.tier, **d,
                                           others=[x['what'] for x in oracle[1:10]]))
        lines.append(f'VIOLATION property={ctx.prop} replay={path}')
        violations = len(oracle)
        exit_code = 1
    elif not proof.ok or corr:
        found = None
        if search is not None:
            found = search()
        if found:
            path = write_replay(ctx.prop, dict(property=ctx.prop, seed=ctx.seed, tier=ctx.tier, **found,
                                               broken=[f[0] for f in proof.failed]))
            lines.append(f'VIOLATION property={ctx.prop} replay={path}')
        else:
            payload = dict(property=ctx.prop, seed=ctx.seed, tier=ctx.tier,
                           no_longer_checks=[dict(obligation=f[0], output=f[1]) for f in proof.failed],
                           correspondence_diffs=corr[:5],
                           note='no failing input was found by the escalated search; the property is no longer shown to hold')
            path = write_replay(ctx.prop, payload)
            lines.append(f'VIOLATION property={ctx.prop} replay={path} no-failing-input-found')
        violations = 1
        exit_code = 1
    cov = dict(
        obligations=max(1, proof.obligations),
        discharged=proof.discharged,
        checker_cmd=f'coqc -Q /verif/coq Pyctr -Q /verif/_build/{ctx.prop} Dyn <Gen_*.v, *_bridge.v, {ctx.prop}_props.v> (after make in /verif/coq); Print Assumptions parsed',
        trusted_base=trusted_base,
        property_theorems=proof.theorems,
        axioms_reported=sorted(proof.axioms),
        static_lemmas_depended_on=proof.static_lemmas,
        proof_failures=[f[0] for f in proof.failed],
        evaluations=max(1, ctx.evaluations),
        distinct_nontrivial=len(ctx.distinct),
        rule=technique_rule,
        samples=ctx.samples[:8] or ['(no correspondence cases in this run)'],
        traces_validated_against_impl=ctx.evaluations,
        stats=ctx.stats,
        exhaustive=False,
    )
    if extra_cov:
        cov.update(extra_cov)
    ev = dict(property_id=ctx.prop, tier=ctx.tier, seed=ctx.seed, level='proof', coverage=cov,
              assumptions=assumptions + ctx.notes, wall_s=round(time.time() - ctx.t0, 2), violations=violations)
    os.makedirs(os.path.join(OUT, 'evidence'), exist_ok=True)
    with open(os.path.join(OUT, 'evidence', ctx.prop + '.json'), 'w') as f:
        json.dump(ev, f, indent=1, default=str)
    for l in lines:
        print(l)
    print(f'{ctx.prop} {ctx.tier}: proof_ok={proof.ok} obligations={proof.discharged}/{proof.obligations} '
          f'cases={ctx.evaluations} distinct={len(ctx.distinct)} diffs={len(ctx.diffs)} '
          f'known={len(ctx.known_hits)} wall={ev["wall_s"]}s exit={exit_code}')
    if not proof.ok:
        for name, msg in proof.failed:
            print(f'  proof obligation broken: {name}: {msg[-600:]}')
    for d in ctx.diffs[:5]:
        print(f'  diff[{d["kind"]}] {d["what"]}')
    if len(ctx.sig_counts) > 1:
        print('  signatures: ' + ', '.join(f'{k} x{v}' for k, v in sorted(ctx.sig_counts.items(), key=lambda kv: -kv[1])[:25]))
    return exit_code
