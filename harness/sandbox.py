"""C19: run reader construction + full traversal on one input inside a forked worker, under a wall-clock kill, an address-space
limit, and CPU / resident-set accounting.  The parent never imports the input into its own interpreter."""
import io
import multiprocessing as mp
import os
import pickle
import resource
import signal
import struct
import sys
import time
from multiprocessing.connection import wait

AS_LIMIT = 3 << 30            # hard backstop; the RSS budget below is what decides


# decompress_code may legitimately expand ANY input, however short, up to CODE_MAX_SIZE = 35 MiB (the size comes from the trailer and is
# capped by that constant): tens of millions of interpreted loop iterations.  That is a bound independent of the input, not a hang.
CPU_BASE = {'lzss': 40.0}


def cpu_budget(n, kind=None):
    return CPU_BASE.get(kind, 3.0) + 4e-6 * n


def rss_budget(n):
    return (200 << 20) + 64 * n


# ---------------------------------------------------------------------------------------------------------------------
# drivers: construct + traverse everything that was parsed.  Return a short outcome string.

def _read_all(f, cap=None):
    total = 0
    while True:
        b = f.read(1 << 20)
        if not b:
            break
        total += len(b)
    return total


def _skip_unreadable(fn):
    """a traversal that goes on after an entry it cannot read (an extraction tool logging the failure): the entries after it must
    still be reachable, so one refused read may not leave anything behind that blocks the next"""
    try:
        fn()
        return 0
    except (MemoryError, RecursionError):
        raise
    except Exception:
        return 1


def drive_romfs(data):
    from pyctr.type.romfs import RomFSReader
    with RomFSReader(io.BytesIO(data)) as r:
        n = bad = 0
        held = []
        for path, dirs, files in r.walk.walk('/'):
            for f in files:
                n += 1

                def one(p=(path.rstrip('/') + '/' + f.name)):
                    with r.openbin(p) as fh:
                        fh.read()
                bad += _skip_unreadable(one)
                if len(held) < 64:
                    held.append(path.rstrip('/') + '/' + f.name)
        # ... and once more with all handles open at the same time (they share what the reader shares between its files)
        held = [r.openbin(p) for p in held]
        for fh in held:
            _skip_unreadable(fh.read)
        return 'ok:%d:%d' % (n, bad)


def drive_exefs(data):
    from pyctr.type.exefs import ExeFSReader
    with ExeFSReader(io.BytesIO(data)) as r:
        for name in list(r.entries):
            def one(name=name):
                with r.open(name, normalize=False) as fh:
                    fh.read()
            _skip_unreadable(one)
        return 'ok:%d' % len(r.entries)


def _ncch_traverse(r):
    from pyctr.type.ncch import NCCHSection
    for sec in list(r.sections):
        with r.open_raw_section(sec) as fh:
            _read_all(fh)
    with r.open_raw_section(NCCHSection.FullDecrypted) as fh:
        _read_all(fh)
        # ... and in one call, the way a caller that trusts the declared size would (read() with no size)
        try:
            fh.seek(0)
            fh.read()
        except (MemoryError, RecursionError):
            raise
        except Exception:
            pass
    if getattr(r, 'exefs', None):
        for name in list(r.exefs.entries):
            with r.exefs.open(name, normalize=False) as fh:
                fh.read()
    if getattr(r, 'romfs', None):
        for path, dirs, files in r.romfs.walk.walk('/'):
            for f in files:
                with r.romfs.openbin((path.rstrip('/') + '/' + f.name)) as fh:
                    fh.read()


def drive_ncch(data):
    from pyctr.type.ncch import NCCHReader
    with NCCHReader(io.BytesIO(data)) as r:
        _ncch_traverse(r)
    return 'ok'


def drive_cia(data):
    from pyctr.type.cia import CIAReader
    with CIAReader(io.BytesIO(data)) as r:
        for sec in list(r.sections):
            with r.open_raw_section(sec) as fh:
                _read_all(fh)
        for c in r.contents.values():
            if hasattr(c, 'sections'):
                _ncch_traverse(c)
    return 'ok'


def drive_cci(data):
    from pyctr.type.cci import CCIReader
    with CCIReader(io.BytesIO(data)) as r:
        for sec in list(r.sections):
            with r.open_raw_section(sec) as fh:
                _read_all(fh)
        for c in r.contents.values():
            _ncch_traverse(c)
    return 'ok'


def drive_tmd(data):
    from pyctr.type.tmd import TitleMetadataReader
    t = TitleMetadataReader.load(io.BytesIO(data))
    bytes(t)
    return 'ok:%d' % len(t.chunk_records)


def drive_smdh(data):
    from pyctr.type.smdh import SMDH
    s = SMDH.load(io.BytesIO(data))
    s.get_app_title()
    return 'ok'


def drive_nandhdr(data):
    from pyctr.type.nand import NANDNCSDHeader
    h = NANDNCSDHeader.from_bytes(data)
    bytes(h)
    return 'ok'


def _save(cls, data):
    from pyctr.crypto.engine import CryptoEngine
    from pyctr.type.save.partdesc.ivfc import IVFCLevel4Reader
    with cls(io.BytesIO(data), crypto=CryptoEngine(setup_b9_keys=False)) as r:
        for p in r.partitions.values():
            _read_all(IVFCLevel4Reader(p.ivfc_hash_tree))
            p.dpfs_lv3_file.seek(0)
            _read_all(p.dpfs_lv3_file)
            # ... and in one call, the way a caller that trusts the size fields would (read() with no size)
            for f in (IVFCLevel4Reader(p.ivfc_hash_tree), p.dpfs_lv3_file):
                try:
                    f.seek(0)
                    f.read()
                except (MemoryError, RecursionError):
                    raise
                except Exception:
                    pass
    return 'ok'


def drive_disa(data):
    from pyctr.type.save.disa import DISA
    return _save(DISA, data)


def drive_diff(data):
    from pyctr.type.save.diff import DIFF
    return _save(DIFF, data)


def drive_config(data):
    from pyctr.type.config.save import ConfigSaveReader
    c = ConfigSaveReader.load(io.BytesIO(data))
    c.to_bytes()
    return 'ok'


def drive_seeddb(data):
    from pyctr.crypto import seeddb
    seeddb._seeds.clear()
    seeddb.load_seeddb(io.BytesIO(data))
    return 'ok:%d' % len(seeddb._seeds)


def drive_lzss(data):
    from pyctr.type.exefs import decompress_code
    return 'ok:%d' % len(decompress_code(data))


DRIVERS = {k[6:]: v for k, v in list(globals().items()) if k.startswith('drive_')}


# ---------------------------------------------------------------------------------------------------------------------

def _worker(conn, b9seed):
    import logging
    logging.disable(logging.CRITICAL)
    resource.setrlimit(resource.RLIMIT_AS, (AS_LIMIT, AS_LIMIT))
    sys.setrecursionlimit(3000)
    from . import pyenv
    pyenv.install_fake_boot9(b9seed)
    from pyctr.crypto import seeddb
    seeddb._loaded_from_default_paths = True
    while True:
        try:
            msg = conn.recv_bytes()
        except EOFError:
            return
        kind, data = pickle.loads(msg)
        rss0 = resource.getrusage(resource.RUSAGE_SELF).ru_maxrss
        t0 = time.process_time()
        try:
            out = DRIVERS[kind](data)
        except MemoryError:
            out = 'raise:MemoryError'
        except RecursionError:
            out = 'raise:RecursionError'
        except BaseException as ex:          # noqa: any exception is a legitimate way to finish
            out = 'raise:' + type(ex).__name__
        cpu = time.process_time() - t0
        rss1 = resource.getrusage(resource.RUSAGE_SELF).ru_maxrss
        conn.send_bytes(pickle.dumps((out, cpu, rss0 * 1024, rss1 * 1024)))


class Pool:
    def __init__(self, n=8, b9seed=777):
        self.n = n
        self.b9seed = b9seed
        self.ctx = mp.get_context('fork')
        self.workers = [self._spawn() for _ in range(n)]

    def _spawn(self):
        a, b = self.ctx.Pipe()
        p = self.ctx.Process(target=_worker, args=(b, self.b9seed), daemon=True)
        p.start()
        b.close()
        return dict(p=p, conn=a, task=None, deadline=None)

    def run(self, tasks, on_result):
        """tasks: iterable of (key, kind, data); on_result(key, kind, data, verdict dict)"""
        it = iter(tasks)
        pending = 0
        done = False
        # an input whose worker gave no answer in time is run once more, alone, after everything else (a worker starved of CPU by
        # whatever else runs on the machine looks like a hang from here; a real hang -- a loop, or threads blocking each other
        # without using any CPU -- times out again)
        retry, retried = [], set()
        while True:
            for w in self.workers:
                if w['task'] is None:
                    t = None
                    if not done:
                        try:
                            t = next(it)
                        except StopIteration:
                            done = True
                    if t is None and done and retry and pending == 0:
                        t = retry.pop(0)
                    if t is None:
                        break
                    w['task'] = t
                    w['deadline'] = time.time() + 4 * cpu_budget(len(t[2]), t[1]) + 5
                    w['conn'].send_bytes(pickle.dumps((t[1], t[2])))
                    pending += 1
            if pending == 0 and done and not retry:
                return
            ready = wait([w['conn'] for w in self.workers if w['task'] is not None], timeout=0.5)
            now = time.time()
            for i, w in enumerate(self.workers):
                if w['task'] is None:
                    continue
                key, kind, data = w['task']
                if w['conn'] in ready:
                    try:
                        out, cpu, rss0, rss1 = pickle.loads(w['conn'].recv_bytes())
                    except (EOFError, OSError):
                        on_result(key, kind, data, dict(outcome='worker-died', cpu=None, rss=None, bad='worker process died (killed by the kernel or crashed)'))
                        self._replace(i)
                        pending -= 1
                        continue
                    bad = None
                    n = len(data)
                    if cpu > cpu_budget(n, kind):
                        bad = f'CPU time {cpu:.2f}s over the budget {cpu_budget(n, kind):.2f}s for {n} input bytes'
                    grown = rss1 - rss0
                    if rss1 > rss_budget(n) + (150 << 20) and grown > rss_budget(n):
                        bad = f'resident set grew by {grown >> 20} MiB (to {rss1 >> 20} MiB) for {n} input bytes'
                    if out == 'raise:MemoryError':
                        bad = f'MemoryError under a {AS_LIMIT >> 30} GiB address-space limit for {n} input bytes'
                    on_result(key, kind, data, dict(outcome=out, cpu=cpu, rss=grown, bad=bad))
                    w['task'] = None
                    pending -= 1
                    if rss1 > (1 << 30):
                        self._replace(i)          # high-water mark is sticky: start afresh
                elif now > w['deadline'] and repr(key) not in retried:
                    retried.add(repr(key))
                    retry.append(w['task'])
                    self._replace(i)
                    pending -= 1
                elif now > w['deadline']:
                    on_result(key, kind, data, dict(outcome='timeout', cpu=None, rss=None,
                                                    bad=f'no result after {now - w["deadline"] + 4 * cpu_budget(len(data), kind) + 5:.0f}s wall clock for {len(data)} input bytes (killed)'))
                    self._replace(i)
                    pending -= 1

    def _replace(self, i):
        w = self.workers[i]
        try:
            w['p'].kill()
            w['p'].join(2)
            w['conn'].close()
        except Exception:
            pass
        self.workers[i] = self._spawn()

    def close(self):
        for w in self.workers:
            try:
                w['conn'].close()
                w['p'].kill()
                w['p'].join(1)
            except Exception:
                pass
