"""Kernel table for tie 1: which pieces of /repo are regenerated into Gallina, per module."""
from .py2gallina import INT, BOOL, SEQ

T = lambda *ts: ('tuple', tuple(ts))

# exception numbering shared with the Coq models (Pyctr n)
PYCTR_ERRS = {
    'KeyslotMissingError': 1, 'BadMovableSedError': 2, 'TicketLengthError': 3,
    'ExeFSFileNotFoundError': 10, 'BadOffsetError': 11, 'ExeFSNameError': 12, 'CodeDecompressionError': 13,
    'InvalidCIAError': 20, 'InvalidTMDError': 30, 'InvalidHashError': 31, 'InvalidInfoRecordError': 32,
    'InvalidSignatureTypeError': 33,
    'RomFSFileNotFoundError': 40, 'RomFSIsADirectoryError': 41, 'RomFSEntryError': 42,
    'InvalidRomFSHeaderError': 43, 'InvalidIVFCError': 44,
    'InvalidCCIError': 50, 'NCCHSeedError': 60, 'InvalidNCCHError': 61,
}

MODULES = {
    'engine': dict(file='pyctr/crypto/engine.py', kernels=[
        dict(py='rol', coq='rol', args=[('val', INT), ('r_bits', INT), ('max_bits', INT)], ret=INT),
        dict(py='CryptoEngine.keygen_manual', coq='keygen_manual', args=[('key_x', INT), ('key_y', INT)], ret=SEQ),
        dict(py='CryptoEngine.keygen_twl_manual', coq='keygen_twl_manual', args=[('key_x', INT), ('key_y', INT)], ret=SEQ),
    ]),
}
