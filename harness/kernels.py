"""Kernel table for tie 1: which pieces of /repo are regenerated into Gallina, per module."""
from .py2gallina import INT, BOOL, SEQ

T = lambda *ts: ('tuple', tuple(ts))

# exception numbering shared with the Coq models (Pyctr n)
PYCTR_ERRS = {
    'KeyslotMissingError': 1, 'BadMovableSedError': 2, 'TicketLengthError': 3,
    'ExeFSFileNotFoundError': 10, 'BadOffsetError': 11, 'ExeFSNameError': 12, 'CodeDecompressionError': 13,
    'InvalidCIAError': 20, 'InvalidTMDError': 30, 'InvalidHashError': 31, 'InvalidInfoRecordError': 32,
    'InvalidSignatureTypeError': 33,
    'RomFSFileNotFoundError': 40, 'RomFSIsADirectoryError': 41, 'RomFSEntryError': 42,
    'InvalidRomFSHeaderError': 43, 'InvalidIVFCError': 44,
    'InvalidCCIError': 50, 'InvalidHeaderError': 70, 'InvalidHeaderLengthError': 71, 'NCCHSeedError': 60, 'InvalidNCCHError': 61,
    'InvalidNANDError': 80, 'MissingOTPError': 81,
    'InvalidConfigSaveError': 90, 'InvalidBlockDataError': 91, 'BlockFlagsNotAllowed': 92, 'OutOfSpaceConfigSaveError': 93, 'ConfigSaveError': 94,
    'BlockIDNotFoundError': 95,
}

MODULES = {
    'engine': dict(file='pyctr/crypto/engine.py', kernels=[
        dict(py='rol', coq='rol', args=[('val', INT), ('r_bits', INT), ('max_bits', INT)], ret=INT),
        dict(py='CryptoEngine.keygen_manual', coq='keygen_manual', args=[('key_x', INT), ('key_y', INT)], ret=SEQ),
        dict(py='CryptoEngine.keygen_twl_manual', coq='keygen_twl_manual', args=[('key_x', INT), ('key_y', INT)], ret=SEQ),
        # arithmetic leaves of the CTR file wrappers (the I/O around them is hand-modelled in Model/CtrIO.v)
        dict(py='CTRFileIO.read', coq='ctr_read_counter', expr_of='counter', args=[('cur_offset', INT)], selfattrs={'_counter': INT}, ret=INT),
        dict(py='CTRFileIO.write', coq='ctr_write_counter', expr_of='counter', args=[('cur_offset', INT)], selfattrs={'_counter': INT}, ret=INT),
        dict(py='CTRFileIO.read', coq='ctr_read_discard', arg_of='decrypt', args=[('cur_offset', INT)], ret=SEQ),
        dict(py='CTRFileIO.write', coq='ctr_write_discard', arg_of='encrypt', args=[('cur_offset', INT)], ret=SEQ),
        dict(py='TWLCTRFileIO.read', coq='twl_read_counter', expr_of='counter', args=[('cur_offset', INT)], selfattrs={'_counter': INT}, ret=INT),
        dict(py='TWLCTRFileIO.read', coq='twl_read_pad_before', expr_of='padding_before', args=[('cur_offset', INT)], ret=INT),
        dict(py='TWLCTRFileIO.read', coq='twl_read_pad_after', expr_of='padding_after', args=[('padding_before', INT), ('data', SEQ)], ret=INT),
        dict(py='TWLCTRFileIO.write', coq='twl_write_counter', expr_of='counter', args=[('cur_offset', INT)], selfattrs={'_counter': INT}, ret=INT),
        dict(py='TWLCTRFileIO.write', coq='twl_write_pad_before', expr_of='padding_before', args=[('cur_offset', INT)], ret=INT),
        dict(py='TWLCTRFileIO.write', coq='twl_write_pad_after', expr_of='padding_after', args=[('padding_before', INT), ('data', SEQ)], ret=INT),
        dict(py='CryptoEngine.create_ctr_io', coq='create_ctr_io_is_twl', if_test=0, args=[('keyslot', INT)], ret=BOOL),
        dict(py='CryptoEngine.create_ctr_cipher', coq='create_ctr_cipher_is_twl', if_test=0, args=[('keyslot', INT)], ret=BOOL),
        dict(py='CBCFileIO.read', coq='cbc_before', expr_of='before', args=[('offset', INT)], ret=INT),
        dict(py='CryptoEngine.sd_path_to_iv', coq='sd_path_to_iv', args=[('path', SEQ)], ret=INT),
    ]),
    'fileio': dict(file='pyctr/fileio.py', kernels=[
        dict(py='SubsectionIO.seek', coq='SubsectionIO_seek', args=[('seek', INT), ('whence', INT)], ret=INT,
             raises=True, selfattrs={'_seek': INT, '_size': INT}, writes=['_seek']),
        # pure prefix of read(): None = early "return b''", Some n = size handed to the base file
        dict(py='SubsectionIO.read', coq='SubsectionIO_read_prefix', args=[('size', INT)],
             selfattrs={'_seek': INT, '_size': INT, '_offset': INT, '_end': INT},
             cut_at_with=True, early_return='None', fallthrough='Some size', fallthrough_vars=['size']),
        # pure prefix of write(): None = early "return 0", Some d = bytes handed to the base file
        dict(py='SubsectionIO.write', coq='SubsectionIO_write_prefix', args=[('data', SEQ)],
             selfattrs={'_seek': INT, '_size': INT},
             cut_at_with=True, early_return='None', fallthrough='Some data', fallthrough_vars=['data']),
    ]),
    'exefs': dict(file='pyctr/type/exefs.py', kernels=[
        dict(py='_normalize_path', coq='normalize_path', args=[('p', SEQ)], ret=SEQ),
    ]),
    'difi': dict(file='pyctr/type/save/partdesc/difi.py', kernels=[
        dict(py='DIFI.from_bytes', coq='difi_from_bytes', args=[('data', SEQ)], raises=True),
        dict(py='DIFI.to_bytes', coq='difi_to_bytes', args=[], ret=SEQ,
             selfattrs={'ivfc_offset': INT, 'ivfc_size': INT, 'dpfs_offset': INT, 'dpfs_size': INT, 'part_hash_offset': INT,
                        'part_hash_size': INT, 'enable_external_ivfc_lv4': BOOL, 'dpfs_tree_lv1_selector': INT,
                        'external_ivfc_lv4_offset': INT}),
    ]),
    'tmd': dict(file='pyctr/type/tmd.py', kernels=[
        dict(py='TitleVersion.from_int', coq='titleversion_from_int', args=[('ver', INT)]),
        dict(py='TitleVersion.__index__', coq='titleversion_index', args=[], ret=INT, selfattrs={'major': INT, 'minor': INT, 'micro': INT}),
        dict(py='ContentTypeFlags.from_int', coq='ctf_from_int', args=[('flags', INT)]),
        dict(py='ContentTypeFlags.__index__', coq='ctf_index', args=[], ret=INT,
             selfattrs={'encrypted': BOOL, 'disc': BOOL, 'cfm': BOOL, 'optional': BOOL, 'shared': BOOL}),
        dict(py='ContentInfoRecord.__bytes__', coq='inforec_bytes', args=[], ret=SEQ,
             selfattrs={'index_offset': INT, 'command_count': INT, 'hash': SEQ}),
        dict(py='ContentChunkRecord.__bytes__', coq='chunk_bytes', args=[], ret=SEQ, selfattrs={'cindex': INT, 'size': INT, 'hash': SEQ},
             extra_args=[('id_bytes', SEQ), ('type_word', INT)], rename={'bytes.fromhex(self.id)': 'id_bytes', 'int(self.type)': 'type_word'}),
    ]),
    'smdh': dict(file='pyctr/type/smdh.py', kernels=[
        dict(py='rgb565_to_rgb888_tuple', coq='rgb565_to_rgb888_tuple', args=[('data', SEQ)]),
        dict(py='load_tiled_rgb565_to_array', coq='pixel_offset', expr_of='pixel_offset',
             args=[('x', INT), ('y', INT), ('width', INT), ('pixel_size', INT)], ret=INT),
        dict(py='SMDHFlags.from_bytes', coq='smdhflags_from_bytes', args=[('flag_bytes', SEQ)]),
        dict(py='SMDHRegionLockout.from_bytes', coq='lockout_from_bytes', args=[('region_lockout_bytes', SEQ)]),
        dict(py='next_pow_2', coq='next_pow_2', args=[('i', INT)], ret=INT),
    ]),
    'util': dict(file='pyctr/util.py', kernels=[
        dict(py='roundup', coq='roundup', args=[('offset', INT), ('alignment', INT)], ret=INT),
    ]),
    'common': dict(file='pyctr/common.py', kernels=[
        dict(py='_ReaderOpenFileBase.seek', coq='ReaderOpenFileBase_seek', args=[('seek', INT), ('whence', INT)], extra_args=[('size', INT)], ret=INT,
             raises=True, selfattrs={'_seek': INT}, writes=['_seek'], rename={'self._info.size': 'size'}),
    ]),
    'ivfcpd': dict(file='pyctr/type/save/partdesc/ivfc.py', kernels=[
        dict(py='IVFCLevel4Reader.seek', coq='IVFCLevel4Reader_seek', args=[('offset', INT), ('whence', INT)], extra_args=[('size', INT)], ret=INT,
             raises=True, selfattrs={'_seek': INT}, writes=['_seek'], rename={'self._lv4.size': 'size'}),
    ]),
    'savecommon': dict(file='pyctr/type/save/partdesc/common.py', imports=['util'], extfuncs={'roundup': ('roundup', [INT, INT], INT, False)}, kernels=[
        dict(py='get_block_range', coq='get_block_range', args=[('offset', INT), ('size', INT), ('block_size', INT)]),
    ]),
    'dpfs': dict(file='pyctr/type/save/partdesc/dpfs.py', kernels=[
        dict(py='DPFSLevelChunkBase.get_active_bit', coq='get_active_bit', args=[('bit', INT)], ret=BOOL, selfattrs={'u32_list': SEQ}),
        dict(py='DPFSLevel3FileIO.seek', coq='DPFSLevel3FileIO_seek', args=[('offset', INT), ('whence', INT)], extra_args=[('size', INT)], ret=INT,
             raises=True, selfattrs={'_seek': INT}, writes=['_seek'], rename={'self._lv3.size': 'size'}),
    ]),
    'ncch': dict(file='pyctr/type/ncch.py', kernels=[
        dict(py='NCCHFlags.from_bytes', coq='ncchflags_from_bytes', args=[('flag_bytes', SEQ)]),
        dict(py='NCCHReader.__init__', coq='region_iv', kwarg_of=('NCCHRegion', 'iv'),
             args=[('partition_id_int', INT), ('section', INT)], ret=INT),
        dict(py='NCCHReader.__init__', coq='region_offset', expr_of='offset', args=[('starting_unit', INT)], ret=INT),
        dict(py='NCCHReader.__init__', coq='region_size', expr_of='size', args=[('units', INT)], ret=INT),
    ]),
    'cia': dict(file='pyctr/type/cia.py', imports=['util'], extfuncs={'roundup': ('roundup', [INT, INT], INT, False)}, kernels=[
        dict(py='CIAReader.__init__', coq='cia_cert_chain_offset', expr_of='cert_chain_offset', args=[('archive_header_size', INT)], ret=INT),
        dict(py='CIAReader.__init__', coq='cia_ticket_offset', expr_of='ticket_offset', args=[('cert_chain_offset', INT), ('cert_chain_size', INT)], ret=INT),
        dict(py='CIAReader.__init__', coq='cia_tmd_offset', expr_of='tmd_offset', args=[('ticket_offset', INT), ('ticket_size', INT)], ret=INT),
        dict(py='CIAReader.__init__', coq='cia_content_offset', expr_of='content_offset', args=[('tmd_offset', INT), ('tmd_size', INT)], ret=INT),
        dict(py='CIAReader.__init__', coq='cia_meta_offset', expr_of='meta_offset', args=[('content_offset', INT), ('content_size', INT)], ret=INT),
        dict(py='CIAReader.__init__', coq='cia_content_iv', expr_of='iv', args=[('record_cindex', INT)], ret=SEQ,
             rename={'record.cindex': 'record_cindex'}),
    ]),
    'romfs': dict(file='pyctr/type/romfs.py', imports=['util'], extfuncs={'roundup': ('roundup', [INT, INT], INT, False)}, kernels=[
        dict(py='RomFSReader.__init__', coq='ivfc_block_size', expr_of='lv3_hash_block_size', args=[('lv3_block_size', INT)], ret=INT),
        dict(py='RomFSReader.__init__', coq='ivfc_lv3_offset', expr_of='lv3_offset', aug_only=True,
             args=[('lv3_offset', INT), ('master_hash_size', INT), ('lv3_hash_block_size', INT)], ret=INT),
    ]),
}
