"""Tie 1: fail-closed translator from a small subset of Python (pyctr's arithmetic /
decision kernels) to Gallina.  Anything outside the subset raises Unsupported and the
check that asked for the kernel treats this as a broken proof obligation.

Types: int -> Z, bool -> bool, bytes/str -> list Z, tuple of those.
A kernel is a function, a method (self attributes become parameters / returned
updates) or a single assignment expression inside a function.
"""
import ast
import textwrap


class Unsupported(Exception):
    pass


INT, BOOL, SEQ, NONE = 'int', 'bool', 'seq', 'none'

ERRS = {
    'ValueError': 'ValueError', 'TypeError': 'TypeError', 'KeyError': 'KeyError',
    'IndexError': 'IndexError', 'OverflowError': 'OverflowError',
    'NotImplementedError': 'NotImplementedErr',
}


def zlit(n):
    return f'({n})' if n < 0 else str(n)


class Ctx:
    def __init__(self, env, funcs, consts, selfattrs, can_raise, pyctr_errs):
        self.env = dict(env)          # name -> type
        self.funcs = funcs            # python callee name -> (coq name, [argtypes], rettype, raises)
        self.consts = consts          # module-level int constants
        self.selfattrs = selfattrs    # attr -> type
        self.can_raise = can_raise
        self.pyctr_errs = pyctr_errs  # exception class name -> int
        self.written = []             # self attrs written (ordered)


class Translator:
    def __init__(self, source, funcs=None, pyctr_errs=None):
        self.tree = ast.parse(source)
        self.funcs = dict(funcs or {})
        self.pyctr_errs = dict(pyctr_errs or {})
        self.consts = {}
        for node in self.tree.body:
            if isinstance(node, ast.Assign) and len(node.targets) == 1 and isinstance(node.targets[0], ast.Name):
                v = self._const_int(node.value)
                if v is not None:
                    self.consts[node.targets[0].id] = v

    # ------------------------------------------------------------------ lookup
    def _const_int(self, node):
        if isinstance(node, ast.Constant) and isinstance(node.value, int) and not isinstance(node.value, bool):
            return node.value
        return None

    def find(self, qualname):
        parts = qualname.split('.')
        body = self.tree.body
        node = None
        for p in parts:
            node = None
            for n in body:
                if isinstance(n, (ast.FunctionDef, ast.ClassDef)) and n.name == p:
                    node = n
                    break
            if node is None:
                raise Unsupported(f'{qualname}: not found')
            body = node.body
        return node

    # ------------------------------------------------------------- expressions
    def expr(self, e, cx):
        """returns (coq term, type)"""
        # an expression the kernel table names as a parameter (conversions of attributes the model keeps in converted form)
        if isinstance(e, (ast.Call, ast.Attribute)):
            av = getattr(cx, 'attr_vars', {})
            if av and ast.unparse(e) in av:
                return av[ast.unparse(e)]
        if isinstance(e, ast.Constant):
            v = e.value
            if isinstance(v, bool):
                return ('true' if v else 'false'), BOOL
            if isinstance(v, int):
                return zlit(v), INT
            if isinstance(v, bytes):
                return '[' + '; '.join(str(b) for b in v) + ']', SEQ
            if isinstance(v, str):
                return '[' + '; '.join(str(ord(c)) for c in v) + ']', SEQ
            raise Unsupported(f'constant {v!r}')
        if isinstance(e, ast.JoinedStr):
            parts = []
            for v in e.values:
                if isinstance(v, ast.Constant) and isinstance(v.value, str):
                    parts.append('[' + '; '.join(str(ord(c)) for c in v.value) + ']')
                elif isinstance(v, ast.FormattedValue) and v.conversion == -1 and v.format_spec is None:
                    t, ty = self.expr(v.value, cx)
                    if ty != SEQ:
                        raise Unsupported('f-string field that is not a str')
                    parts.append(t)
                else:
                    raise Unsupported('f-string form')
            return '(' + ' ++ '.join(parts) + ')', SEQ
        if isinstance(e, ast.Name):
            if e.id in cx.env:
                return self.vname(e.id), cx.env[e.id]
            if e.id in cx.consts:
                return zlit(cx.consts[e.id]), INT
            raise Unsupported(f'unknown name {e.id}')
        if isinstance(e, ast.Attribute):
            av = getattr(cx, 'attr_vars', {})
            if ast.unparse(e) in av:
                return av[ast.unparse(e)]
            if isinstance(e.value, ast.Name) and e.value.id == 'self' and e.attr in cx.selfattrs:
                return 'self_' + e.attr.lstrip('_'), cx.selfattrs[e.attr]
            raise Unsupported(f'attribute {ast.unparse(e)}')
        if isinstance(e, ast.UnaryOp):
            t, ty = self.expr(e.operand, cx)
            if isinstance(e.op, ast.USub):
                return f'(- {self.as_int(t, ty)})', INT
            if isinstance(e.op, ast.Invert):
                return f'(Z.lnot {self.as_int(t, ty)})', INT
            if isinstance(e.op, ast.Not):
                return f'(negb {self.as_bool(t, ty)})', BOOL
            raise Unsupported('unary op')
        if isinstance(e, ast.BinOp):
            return self.binop(e, cx)
        if isinstance(e, ast.BoolOp):
            parts = [self.as_bool(*self.expr(v, cx)) for v in e.values]
            op = ' && ' if isinstance(e.op, ast.And) else ' || '
            return '(' + op.join(parts) + ')', BOOL
        if isinstance(e, ast.Compare):
            return self.compare(e, cx)
        if isinstance(e, ast.IfExp):
            c = self.as_bool(*self.expr(e.test, cx))
            a, ta = self.expr(e.body, cx)
            b, tb = self.expr(e.orelse, cx)
            if ta != tb:
                raise Unsupported('if-expression with different types')
            return f'(if {c} then {a} else {b})', ta
        if isinstance(e, ast.Subscript):
            return self.subscript(e, cx)
        if isinstance(e, ast.Call):
            return self.call(e, cx)
        if isinstance(e, ast.List) or (isinstance(e, ast.Tuple) and getattr(cx, 'want_seqlist', False)):
            parts = [self.expr(x, cx) for x in e.elts]
            if not all(p[1] == SEQ for p in parts):
                raise Unsupported('list literal of non-bytes')
            return '[' + '; '.join(p[0] for p in parts) + ']', 'seqlist'
        if isinstance(e, ast.Tuple):
            parts = [self.expr(x, cx) for x in e.elts]
            return '(' + ', '.join(p[0] for p in parts) + ')', ('tuple', tuple(p[1] for p in parts))
        raise Unsupported(f'expression {type(e).__name__}: {ast.unparse(e)}')

    def as_int(self, t, ty):
        if ty == INT:
            return t
        if ty == BOOL:
            return f'(Z.b2z {t})'
        raise Unsupported(f'expected int, got {ty}')

    def as_bool(self, t, ty):
        if ty == BOOL:
            return t
        if ty == INT:
            return f'(negb ({t} =? 0))'
        if ty == SEQ:
            return f'(negb (len {t} =? 0))'
        raise Unsupported(f'expected bool, got {ty}')

    def binop(self, e, cx):
        a, ta = self.expr(e.left, cx)
        b, tb = self.expr(e.right, cx)
        op = e.op
        if ta == SEQ or tb == SEQ:
            if isinstance(op, ast.Add) and ta == SEQ and tb == SEQ:
                return f'({a} ++ {b})', SEQ
            if isinstance(op, ast.Mult) and ta == SEQ and tb in (INT, BOOL):
                return f'(seq_mul {a} {self.as_int(b, tb)})', SEQ
            raise Unsupported(f'sequence operator {type(op).__name__}')
        if ta == BOOL and tb == BOOL and isinstance(op, (ast.BitOr, ast.BitAnd, ast.BitXor)):
            # bool | bool stays an int-like bool in Python; keep it an int for uniformity
            pass
        a, b = self.as_int(a, ta), self.as_int(b, tb)
        table = {
            ast.Add: '({} + {})', ast.Sub: '({} - {})', ast.Mult: '({} * {})',
            ast.FloorDiv: '({} / {})', ast.Mod: '({} mod {})',
            ast.LShift: '(Z.shiftl {} {})', ast.RShift: '(Z.shiftr {} {})',
            ast.BitAnd: '(Z.land {} {})', ast.BitOr: '(Z.lor {} {})', ast.BitXor: '(Z.lxor {} {})',
            ast.Pow: '({} ^ {})',
        }
        for k, fmt in table.items():
            if isinstance(op, k):
                return fmt.format(a, b), INT
        raise Unsupported(f'operator {type(op).__name__} (floats are outside the subset)')

    def compare(self, e, cx):
        # `x is None` / `x is not None` on a parameter the kernel table types as an integer or a byte string: the models range over
        # integers and byte strings only, so the test is decided (the None spelling itself is exercised by the file-contract oracle)
        if len(e.ops) == 1 and isinstance(e.ops[0], (ast.Is, ast.IsNot)) and isinstance(e.comparators[0], ast.Constant) \
                and e.comparators[0].value is None and isinstance(e.left, ast.Name) and cx.env.get(e.left.id) in (INT, SEQ):
            return ('false' if isinstance(e.ops[0], ast.Is) else 'true'), BOOL
        terms = [self.expr(e.left, cx)] + [self.expr(c, cx) for c in e.comparators]
        out = []
        for i, op in enumerate(e.ops):
            (a, ta), (b, tb) = terms[i], terms[i + 1]
            if ta == SEQ and tb == SEQ:
                if isinstance(op, ast.Eq):
                    out.append(f'(list_eqb {a} {b})')
                elif isinstance(op, ast.NotEq):
                    out.append(f'(negb (list_eqb {a} {b}))')
                else:
                    raise Unsupported('ordering on sequences')
                continue
            if ta == BOOL and tb == BOOL and isinstance(op, (ast.Eq, ast.NotEq)):
                t = f'(Bool.eqb {a} {b})'
                out.append(t if isinstance(op, ast.Eq) else f'(negb {t})')
                continue
            a, b = self.as_int(a, ta), self.as_int(b, tb)
            table = {ast.Lt: '({} <? {})', ast.LtE: '({} <=? {})', ast.Gt: '({} >? {})',
                     ast.GtE: '({} >=? {})', ast.Eq: '({} =? {})', ast.NotEq: '(negb ({} =? {}))'}
            for k, fmt in table.items():
                if isinstance(op, k):
                    out.append(fmt.format(a, b))
                    break
            else:
                raise Unsupported(f'comparison {type(op).__name__}')
        return ('(' + ' && '.join(out) + ')' if len(out) > 1 else out[0]), BOOL

    def subscript(self, e, cx):
        v, tv = self.expr(e.value, cx)
        if tv != SEQ:
            raise Unsupported('subscript on non-sequence')
        s = e.slice
        if isinstance(s, ast.Slice):
            if s.step is not None:
                st = self._const_int(s.step) if not isinstance(s.step, ast.UnaryOp) else None
                if (isinstance(s.step, ast.UnaryOp) and isinstance(s.step.op, ast.USub)
                        and self._const_int(s.step.operand) == 1 and s.lower is None and s.upper is None):
                    return f'(rev {v})', SEQ
                raise Unsupported('slice step')
            lo = 'None' if s.lower is None else f'(Some {self.as_int(*self.expr(s.lower, cx))})'
            hi = 'None' if s.upper is None else f'(Some {self.as_int(*self.expr(s.upper, cx))})'
            return f'(pyslice {v} {lo} {hi})', SEQ
        i = self.as_int(*self.expr(s, cx))
        return f'(pyidx {v} {i})', INT

    def call(self, e, cx):
        f = e.func
        if e.keywords and not (isinstance(f, ast.Name) and f.id == 'cls'):
            raise Unsupported('keyword arguments')
        args = e.args
        if isinstance(f, ast.Name):
            n = f.id
            if n in ('readle', 'readbe') and len(args) == 1:
                a = self.expr(args[0], cx)
                if a[1] != SEQ:
                    raise Unsupported('readle/readbe on non-bytes')
                return f'({"le" if n == "readle" else "be"}_decode {a[0]})', INT
            if n == 'len' and len(args) == 1:
                a = self.expr(args[0], cx)
                if a[1] != SEQ:
                    raise Unsupported('len on non-sequence')
                return f'(len {a[0]})', INT
            if n in ('min', 'max') and len(args) == 2:
                a = self.as_int(*self.expr(args[0], cx))
                b = self.as_int(*self.expr(args[1], cx))
                return f'(Z.{n} {a} {b})', INT
            if n == 'bool' and len(args) == 1:
                return self.as_bool(*self.expr(args[0], cx)), BOOL
            if n == 'int' and len(args) == 1:
                t, ty = self.expr(args[0], cx)
                return self.as_int(t, ty), INT
            if n == 'isinstance' and len(args) == 2 and isinstance(args[1], ast.Name) and args[1].id == 'int':
                t, ty = self.expr(args[0], cx)
                if ty == INT:
                    return 'true', BOOL
                raise Unsupported('isinstance on a non-int')
            if n == 'cls':
                parts = [self.expr(a, cx) for a in args] + [self.expr(k.value, cx) for k in e.keywords]
                return '(' + ', '.join(p[0] for p in parts) + ')', ('tuple', tuple(p[1] for p in parts))
            if n in cx.funcs:
                return self.known_call(cx.funcs[n], args, cx)
            raise Unsupported(f'call to {n}')
        if isinstance(f, ast.Attribute):
            # int.from_bytes(b, 'little')
            if isinstance(f.value, ast.Name) and f.value.id == 'int' and f.attr == 'from_bytes' and len(args) == 2:
                b = self.expr(args[0], cx)
                order = args[1].value if isinstance(args[1], ast.Constant) else None
                if b[1] != SEQ or order not in ('little', 'big'):
                    raise Unsupported('int.from_bytes form')
                return f'({"le" if order == "little" else "be"}_decode {b[0]})', INT
            # staticmethod via self / class name
            if isinstance(f.value, ast.Name) and f.value.id in ('self', 'cls') and f.attr in cx.funcs:
                return self.known_call(cx.funcs[f.attr], args, cx)
            if f.attr == 'digest' and not args and isinstance(f.value, ast.Call) and isinstance(f.value.func, ast.Name) \
                    and f.value.func.id == 'sha256' and len(f.value.args) == 1:
                a, ta = self.expr(f.value.args[0], cx)
                if ta != SEQ:
                    raise Unsupported('sha256 of non-bytes')
                return f'(sha256 {a})', SEQ
            # memoryview(b).cast('B'): the same bytes, seen one byte at a time (the models' byte strings are that already)
            if f.attr == 'cast' and len(args) == 1 and isinstance(args[0], ast.Constant) and args[0].value == 'B' \
                    and isinstance(f.value, ast.Call) and isinstance(f.value.func, ast.Name) and f.value.func.id == 'memoryview' and len(f.value.args) == 1:
                a, ta = self.expr(f.value.args[0], cx)
                if ta != SEQ:
                    raise Unsupported('memoryview of a non-bytes value')
                return a, SEQ
            if f.attr == 'encode' and len(args) == 1 and isinstance(args[0], ast.Constant) and args[0].value == 'utf-16le':
                a, ta = self.expr(f.value, cx)
                if ta != SEQ:
                    raise Unsupported('encode of non-str')
                return f'(utf16le_encode {a})', SEQ
            if f.attr == 'join' and isinstance(f.value, ast.Constant) and f.value.value == b'' and len(args) == 1:
                cx.want_seqlist = True
                try:
                    a, ta = self.expr(args[0], cx)
                finally:
                    cx.want_seqlist = False
                if ta != 'seqlist':
                    raise Unsupported('join of something that is not a list of bytes')
                return f'(concat {a})', SEQ
            recv, tr = self.expr(f.value, cx)
            if f.attr == 'to_bytes' and tr == BOOL:
                recv, tr = self.as_int(recv, tr), INT
            if f.attr == 'to_bytes' and tr == INT and len(args) == 2:
                n = None
                if isinstance(args[0], ast.Constant):
                    n = self._const_int(args[0])
                order = args[1].value if isinstance(args[1], ast.Constant) else None
                if n is None or order not in ('little', 'big'):
                    raise Unsupported('to_bytes form')
                return f'({"le" if order == "little" else "be"}_encode {n}%nat {recv})', SEQ
            if tr == SEQ:
                if f.attr in ('startswith', 'endswith') and len(args) == 1:
                    a = self.expr(args[0], cx)
                    if a[1] != SEQ:
                        raise Unsupported('startswith arg')
                    fn = 'starts_with' if f.attr == 'startswith' else 'ends_with'
                    return f'({fn} {recv} {a[0]})', BOOL
                if f.attr == 'lower' and not args:
                    return f'(lower {recv})', SEQ
                if f.attr == 'replace' and len(args) == 2:
                    if not (isinstance(args[0], ast.Constant) and isinstance(args[0].value, (str, bytes))
                            and len(args[0].value) == 1):
                        raise Unsupported('replace with a pattern that is not one character')
                    c = args[0].value
                    c = ord(c) if isinstance(c, str) else c[0]
                    b = self.expr(args[1], cx)
                    if b[1] != SEQ:
                        raise Unsupported('replace arg')
                    return f'(str_replace1 {recv} {c} {b[0]})', SEQ
            raise Unsupported(f'method call {ast.unparse(e)}')
        raise Unsupported(f'call {ast.unparse(e)}')

    def known_call(self, sig, args, cx):
        coqname, argtys, ret, raises = sig
        if raises:
            raise Unsupported('call to a raising kernel inside an expression')
        if len(args) != len(argtys):
            raise Unsupported('arity')
        parts = []
        for a, ty in zip(args, argtys):
            t, ta = self.expr(a, cx)
            if ty == INT:
                t = self.as_int(t, ta)
            elif ty != ta:
                raise Unsupported(f'argument type {ta} for {ty}')
            parts.append(t)
        return '(' + coqname + ' ' + ' '.join(parts) + ')', ret

    # -------------------------------------------------------------- statements
    RESERVED = {'len', 'rev', 'fix', 'at', 'in', 'end', 'as', 'if', 'then', 'else', 'let', 'fun', 'match', 'with',
                'return', 'Type', 'Set', 'Prop', 'forall', 'exists', 'mod', 'lower', 'slice', 'take', 'drop', 'using',
                'where', 'do', 'bind', 'result', 'err', 'Ok', 'Err', 'pyslice', 'pyidx', 'zth', 'overlay', 'byte_ok'}

    def vname(self, n):
        n = n.lstrip('_') if n.startswith('_') else n
        return n + '_' if n in self.RESERVED else n

    def block(self, stmts, cx, rest):
        """translate stmts followed by continuation `rest` (a thunk returning coq text or None
        when falling off the end is an error)"""
        if not stmts:
            return rest(cx)
        s, tail = stmts[0], stmts[1:]
        k = lambda c: self.block(tail, c, rest)
        if isinstance(s, ast.Expr) and isinstance(s.value, ast.Constant) and isinstance(s.value.value, str):
            return k(cx)  # docstring
        if isinstance(s, ast.Pass):
            return k(cx)
        if isinstance(s, (ast.Assign, ast.AugAssign, ast.AnnAssign)):
            if isinstance(s, ast.Assign):
                if len(s.targets) != 1:
                    raise Unsupported('multiple targets')
                tgt, val = s.targets[0], s.value
            elif isinstance(s, ast.AnnAssign):
                tgt, val = s.target, s.value
            else:
                tgt = s.target
                val = ast.BinOp(left=self._load(tgt), op=s.op, right=s.value)
            t, ty = self.expr(val, cx)
            if isinstance(tgt, ast.Name):
                cx2 = self._fork(cx)
                cx2.env[tgt.id] = ty
                return f'let {self.vname(tgt.id)} := {t} in\n{k(cx2)}'
            if (isinstance(tgt, ast.Attribute) and isinstance(tgt.value, ast.Name) and tgt.value.id == 'self'
                    and tgt.attr in cx.selfattrs):
                if cx.selfattrs[tgt.attr] != ty:
                    if cx.selfattrs[tgt.attr] == INT:
                        t = self.as_int(t, ty)
                    else:
                        raise Unsupported('self attribute type change')
                if tgt.attr not in cx.written:
                    raise Unsupported(f'self.{tgt.attr} written but not declared in writes')
                return f'let self_{tgt.attr.lstrip("_")} := {t} in\n{k(cx)}'
            raise Unsupported(f'assignment target {ast.unparse(tgt)}')
        if isinstance(s, ast.With) and getattr(cx, 'cut_at_with', False):
            return rest(cx)       # the pure prefix ends here
        if isinstance(s, ast.Return):
            if getattr(cx, 'early', None) is not None:
                return cx.early
            if s.value is None:
                raise Unsupported('bare return')
            t, ty = self.expr(s.value, cx)
            return self.ret(t, ty, cx)
        if isinstance(s, ast.Raise):
            return self.raise_(s, cx)
        if isinstance(s, ast.If):
            c = self.as_bool(*self.expr(s.test, cx))
            a = self.block(s.body, self._fork(cx), lambda c2: self.block(tail, c2, rest))
            b = self.block(s.orelse, self._fork(cx), lambda c2: self.block(tail, c2, rest))
            return f'if {c} then (\n{a}\n) else (\n{b}\n)'
        raise Unsupported(f'statement {type(s).__name__}: {ast.unparse(s)[:60]}')

    def _load(self, tgt):
        if isinstance(tgt, ast.Name):
            return ast.Name(id=tgt.id, ctx=ast.Load())
        if isinstance(tgt, ast.Attribute):
            return ast.Attribute(value=tgt.value, attr=tgt.attr, ctx=ast.Load())
        raise Unsupported('augmented assignment target')

    def _fork(self, cx):
        c = Ctx(cx.env, cx.funcs, cx.consts, cx.selfattrs, cx.can_raise, cx.pyctr_errs)
        c.written = cx.written
        c.rettype = getattr(cx, 'rettype', None)
        c.retseen = cx.retseen
        c.attr_vars = getattr(cx, 'attr_vars', {})
        c.cut_at_with = getattr(cx, 'cut_at_with', False)
        c.early = getattr(cx, 'early', None)
        return c

    def ret(self, t, ty, cx):
        want = cx.rettype
        if want == INT and ty == BOOL:
            t, ty = self.as_int(t, ty), INT
        if want is not None and want != ty and not (isinstance(want, tuple) and isinstance(ty, tuple)):
            raise Unsupported(f'return type {ty}, declared {want}')
        cx.retseen.append(ty)
        if cx.written:
            t = '(' + t + ', (' + ', '.join('self_' + w.lstrip('_') for w in cx.written) + '))' \
                if len(cx.written) > 1 else f'({t}, self_{cx.written[0].lstrip("_")})'
        return f'Ok {t}' if cx.can_raise else t

    def raise_(self, s, cx):
        if not cx.can_raise:
            raise Unsupported('raise in a kernel declared non-raising')
        exc = s.exc
        name = None
        if isinstance(exc, ast.Call) and isinstance(exc.func, ast.Name):
            name = exc.func.id
        elif isinstance(exc, ast.Name):
            name = exc.id
        if name in ERRS:
            return f'Err {ERRS[name]}'
        if name in cx.pyctr_errs:
            return f'Err (Pyctr {cx.pyctr_errs[name]})'
        raise Unsupported(f'raise {name}')

    # ------------------------------------------------------------------ kernel
    def kernel(self, spec):
        """spec: dict(py=qualname, coq=name, args=[(name,type)], ret=type, raises=bool,
                      selfattrs={attr:type}, writes=[attr], expr_of=varname (optional),
                      fallthrough=coq text for falling off the end (optional))"""
        node = self.find(spec['py'])
        if not isinstance(node, ast.FunctionDef):
            raise Unsupported('not a function')
        pyargs = [a.arg for a in node.args.args if a.arg not in ('self', 'cls')]
        declared = spec['args']
        if not ({'expr_of', 'arg_of', 'if_test', 'kwarg_of'} & set(spec)) and [a for a, _ in declared] != pyargs:
            raise Unsupported(f'{spec["py"]}: parameters are now {pyargs}, kernel table says {[a for a, _ in declared]}')
        # extra_args: values the method reads through attribute chains (self._info.size, ...), made parameters of the kernel and
        # bound by `rename`
        extras = list(spec.get('extra_args', []))
        cx = Ctx(dict(extras + list(declared)), self.funcs, self.consts, spec.get('selfattrs', {}), spec.get('raises', False),
                 self.pyctr_errs)
        cx.written = list(spec.get('writes', []))
        cx.rettype = spec.get('ret')
        cx.retseen = []
        cx.attr_vars = {k: (v, dict(extras + list(declared))[v]) for k, v in spec.get('rename', {}).items()}
        cx.cut_at_with = spec.get('cut_at_with', False)
        cx.early = spec.get('early_return')
        params = []
        for a in sorted(spec.get('selfattrs', {})):
            params.append(('self_' + a.lstrip('_'), spec['selfattrs'][a]))
        for a, ty in extras:
            params.append((self.vname(a), ty))
        for a, ty in declared:
            params.append((self.vname(a), ty))
        if 'arg_of' in spec or 'if_test' in spec or 'kwarg_of' in spec:
            if 'kwarg_of' in spec:
                fn, kw = spec['kwarg_of']
                found = [k.value for n in ast.walk(node) if isinstance(n, ast.Call) and isinstance(n.func, ast.Name)
                         and n.func.id == fn for k in n.keywords if k.arg == kw]
            elif 'arg_of' in spec:
                found = [n.args[0] for n in ast.walk(node)
                         if isinstance(n, ast.Call) and isinstance(n.func, ast.Attribute) and n.func.attr == spec['arg_of']
                         and n.args and not isinstance(n.args[0], ast.Name)]
            else:
                tests = [n.test for n in node.body if isinstance(n, ast.If)]
                found = tests[spec['if_test']:spec['if_test'] + 1]
            if len(found) != 1:
                raise Unsupported(f'{spec["py"]}: {len(found)} candidate expressions for {spec["coq"]}')
            body, rtype = self.expr(found[0], cx)
            if 'if_test' in spec:
                body = self.as_bool(body, rtype)
                rtype = BOOL
            if cx.rettype and rtype != cx.rettype:
                raise Unsupported('expr type')
        elif 'expr_of' in spec:
            target = spec['expr_of']
            found = []
            for n in ast.walk(node):
                if isinstance(n, ast.AugAssign) and isinstance(n.target, ast.Name) and n.target.id == target:
                    found.append(ast.BinOp(left=ast.Name(id=target, ctx=ast.Load()), op=n.op, right=n.value))
                if isinstance(n, ast.Assign) and not spec.get('aug_only') and len(n.targets) == 1 \
                        and isinstance(n.targets[0], ast.Name) \
                        and n.targets[0].id == target and not (isinstance(n.value, ast.Constant) and n.value.value is None):
                    found.append(n.value)
            if len(found) != 1:
                raise Unsupported(f'{spec["py"]}: {len(found)} assignments to {target}')
            t, ty = self.expr(found[0], cx)
            if cx.rettype and ty != cx.rettype:
                raise Unsupported('expr type')
            body = t
            rtype = ty
        else:
            def fall(c):
                if 'fallthrough' in spec:
                    ft = spec['fallthrough']
                    for v in spec.get('fallthrough_vars', []):
                        if v not in c.env and not v.startswith('self_'):
                            raise Unsupported(f'{spec["py"]}: variable {v} not bound at the cut point')
                    return ft
                raise Unsupported(f'{spec["py"]}: control can fall off the end')
            body = self.block(node.body, cx, fall)
            rtype = cx.rettype
        ptxt = ' '.join(f'({n} : {self.coqty(ty)})' for n, ty in params)
        if '(sha256 ' in body:
            ptxt = '(sha256 : list Z -> list Z) ' + ptxt
        needs_lower = '(lower ' in body
        if needs_lower:
            ptxt = '(lower : list Z -> list Z) ' + ptxt
        return f'Definition {spec["coq"]} {ptxt} :=\n{textwrap.indent(body, "  ")}.\n'

    def coqty(self, ty):
        if ty == INT:
            return 'Z'
        if ty == BOOL:
            return 'bool'
        if ty == SEQ:
            return 'list Z'
        if ty == 'seqlist':
            return 'list (list Z)'
        if isinstance(ty, tuple) and ty[0] == 'tuple':
            return '(' + ' * '.join(self.coqty(t) for t in ty[1]) + ')'
        raise Unsupported(f'type {ty}')


HEADER = '''(* GENERATED by harness/py2gallina.py from {src} -- do not edit. *)
From Pyctr Require Import Base.Prelude Base.ListExt Base.PyInt Base.PySlice Base.PyStr.

'''


def translate_module(src_path, specs, pyctr_errs=None, imports=(), extfuncs=None):
    """specs in dependency order; returns Coq text"""
    with open(src_path, encoding='utf-8') as f:
        source = f.read()
    tr = Translator(source, funcs=extfuncs, pyctr_errs=pyctr_errs)
    out = [HEADER.format(src=src_path)]
    if imports:
        out.append('From Dyn Require Import ' + ' '.join('Gen_' + m for m in imports) + '.\n')
    for spec in specs:
        text = tr.kernel(spec)
        out.append(text)
        short = spec['py'].split('.')[-1]
        tr.funcs[short] = (spec['coq'], [ty for _, ty in spec['args']], spec.get('ret'), spec.get('raises', False))
    return '\n'.join(out)
